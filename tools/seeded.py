#!/venv/bin/python
"""Confirm and evaluate a seeded change produced independently (sub-agent): 
   tools/seeded.py add <id> <property> <worktree> "<needs>"   - copy patch.diff + demo from the worktree to /verif/seeded/<id>/,
        re-confirm in a fresh scratch copy (tests pass with the patch, demo fails with it and passes without it)
   tools/seeded.py run <id> [--tier quick]                      - run the property's check against a scratch copy with the patch
The scratch copies live under /tmp and are removed afterwards; /repo is never modified."""
import glob
import json
import os
import shutil
import subprocess
import sys
import tempfile

VERIF = os.path.dirname(os.path.dirname(os.path.abspath(__file__)))
PY = "/venv/bin/python"


def scratch(patch=None):
    d = tempfile.mkdtemp(prefix="verif_seed_")
    subprocess.run(["git", "-C", "/repo", "worktree", "add", "-q", "--detach", d + "/wt", "HEAD"], check=True)
    if patch:
        subprocess.run(["git", "-C", d + "/wt", "apply", patch], check=True)
    return d


def cleanup(d):
    subprocess.run(["git", "-C", "/repo", "worktree", "remove", "--force", d + "/wt"], check=False)
    shutil.rmtree(d, ignore_errors=True)


def add(sid, prop, wt, needs):
    dst = os.path.join(VERIF, "seeded", sid)
    os.makedirs(dst, exist_ok=True)
    shutil.copy(os.path.join(wt, "patch.diff"), dst)
    demos = glob.glob(os.path.join(wt, "demo_*.py"))
    for f in demos:
        shutil.copy(f, dst)
    demo = os.path.basename(demos[0])
    ran = []
    d = scratch(os.path.join(dst, "patch.diff"))
    try:
        w = d + "/wt"
        env = {**os.environ, "PYTHONPATH": w}
        t = subprocess.run([PY, "-m", "pytest", "-q", "-p", "no:cacheprovider", "--deselect", "tests/test__package.py::test__last_modified_date"],
                           cwd=w, env=env, capture_output=True, text=True)
        tests = t.stdout.strip().splitlines()[-1]
        r1 = subprocess.run([PY, os.path.join(dst, demo)], cwd=w, env=env, capture_output=True, text=True)
        ran.append(f"patched tree: pytest -> {tests}; {demo} -> exit {r1.returncode}")
    finally:
        cleanup(d)
    d = scratch()
    try:
        w = d + "/wt"
        r0 = subprocess.run([PY, os.path.join(dst, demo)], cwd=w, env={**os.environ, "PYTHONPATH": w}, capture_output=True, text=True)
        ran.append(f"unpatched tree: {demo} -> exit {r0.returncode}")
    finally:
        cleanup(d)
    ok = t.returncode == 0 and r1.returncode != 0 and r0.returncode == 0
    meta = dict(id=sid, property=prop, needs=needs, confirmed=ok, ran=ran, demo=demo, source="independent sub-agent given only the property text")
    json.dump(meta, open(os.path.join(dst, "meta.json"), "w"), indent=1)
    print(json.dumps(meta, indent=1))
    return 0 if ok else 1


def run(sid, tier="quick", props=None):
    dst = os.path.join(VERIF, "seeded", sid)
    meta = json.load(open(os.path.join(dst, "meta.json")))
    d = scratch(os.path.join(dst, "patch.diff"))
    out = {}
    try:
        for prop in (props or [meta["property"]]):
            r = subprocess.run([os.path.join(VERIF, "verify"), prop, "--tier", tier], cwd=VERIF,
                               env={**os.environ, "VERIF_REPO": d + "/wt", "VERIF_NO_EVIDENCE": "1"}, capture_output=True, text=True)
            viol = [l for l in r.stdout.splitlines() if l.startswith("   harness=")][:1]
            verdict = {0: "MISSED", 1: "caught" if "VIOLATION property=" in r.stdout else "exit1?", 2: "inconclusive"}.get(r.returncode, str(r.returncode))
            out[prop] = verdict
            print(sid, prop, tier, "->", verdict, (viol or [""])[0][:300], r.stdout.strip().splitlines()[-1][-150:] if r.stdout.strip() else r.stderr[-300:], flush=True)
    finally:
        cleanup(d)
    meta.setdefault("checks", {}).update({f"{p}:{tier}": v for p, v in out.items()})
    json.dump(meta, open(os.path.join(dst, "meta.json"), "w"), indent=1)
    return out


if __name__ == "__main__":
    a = sys.argv[1:]
    if a[0] == "add":
        sys.exit(add(a[1], a[2], a[3], a[4]))
    if a[0] == "run":
        tier = a[a.index("--tier") + 1] if "--tier" in a else "quick"
        props = a[a.index("--props") + 1].split(",") if "--props" in a else None
        run(a[1], tier, props)
