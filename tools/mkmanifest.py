#!/venv/bin/python
"""Regenerate MANIFEST.json from the table below (kept in one place so it is always valid)."""
import json
import os

VERIF = os.path.dirname(os.path.dirname(os.path.abspath(__file__)))
TECH = ("bounded symbolic execution of the library's real source (symx: AST-instrumented import of /repo's current "
        "tree, proxies over z3 bit-vectors, exhaustive path exploration per structural shard); every claim's negation "
        "is decided by z3 per path; counterexamples are replayed on the uninstrumented library")

# id -> (level text, level note, design ref)
CLAIMED = json.load(open(os.path.join(VERIF, "tools", "claimed.json")))
ALL_IDS = [json.loads(l)["id"] for l in open(os.path.join(VERIF, "properties.jsonl"))]

checks = []
for pid in ALL_IDS:
    if pid not in CLAIMED:
        continue
    c = CLAIMED[pid]
    checks.append(dict(
        property_id=pid,
        quick_cmd=f"./verify {pid} --tier quick",
        thorough_cmd=f"./verify {pid} --tier thorough",
        evidence_file=f"/verif/evidence/{pid}.json",
        replay_cmd_template="./verify replay {path}",
        engine="symx",
        level_claimed=dict(category="model_checking", text=c["text"], design_ref=c.get("design_ref", "DESIGN.md section 3, " + pid)),
        level_note=c["note"],
        technique=c.get("technique", TECH),
    ))
na = [dict(property_id=pid, reason=json.load(open(os.path.join(VERIF, "tools", "na.json"))).get(pid, "check not built yet in this revision of /verif (work in progress); nothing is claimed for it"))
      for pid in ALL_IDS if pid not in CLAIMED]
manifest = dict(
    version=1,
    setup_cmd="/venv/bin/python /verif/verify bootstrap",
    hooks=dict(guard="CISCO_ACL_VERIF", enable="none needed: the instrumenting loader reads /repo's sources at import time; no source hooks exist",
               baseline_off_cmd="cd /repo && /venv/bin/python -m pytest -ra -q -p no:cacheprovider --timeout=900 --continue-on-collection-errors",
               source_commits=[], add_only=True),
    engines=[dict(name="symx", path="/verif/symx", serves_properties=[c["property_id"] for c in checks],
                  kind_free_text="purpose-built dynamic symbolic executor for Python: source-level AST instrumentation of cisco_acl, "
                                 "ipaddress and netports; symbolic ints/strings/bools over z3 BitVec(64); DFS over branch decisions with "
                                 "solver feasibility checks; dual-mode harnesses replayed concretely")],
    checks=checks,
    notes="Exit codes: 0 held, 1 VIOLATION (replay-confirmed, not listed in known_findings.json), 2 inconclusive. See DESIGN.md.",
    not_applicable=na,
)
json.dump(manifest, open(os.path.join(VERIF, "MANIFEST.json"), "w"), indent=1)
print("claimed", [c["property_id"] for c in checks], "n/a", len(na))
