#!/venv/bin/python
"""Development aid: apply one-line mutants (all of which compile and pass the repo's 327 tests) to a scratch copy
of /repo OUTSIDE /repo and /verif, run the corresponding checks against the copy (VERIF_REPO), report caught/missed,
remove the copy.   usage: tools/mutants.py [--tier quick] [--props C05,C08] [ids...]"""
import json
import os
import shutil
import subprocess
import sys
import tempfile

VERIF = os.path.dirname(os.path.dirname(os.path.abspath(__file__)))

# (id, file, old, new, properties expected to catch it)
MUTANTS = [
    ("M01", "wildcard.py", "        if count > self.max_ncwb:", "        if count > self.max_ncwb + 1:", "C05"),
    ("M02", "wildcard.py", "                mask = 1 << idx\n", "                mask = 1 << (idx if idx < 31 else 30)\n", "C05"),
    ("M03", "wildcard.py", "        for bits_values in product((0, 1), repeat=repeat):",
     "        for bits_values in list(product((0, 1), repeat=repeat))[: 2 ** min(repeat, 3)]:", "C05 C03"),
    ("M04", "wildcard.py", "        prefix_i = prefix_i & inverted_i", "        prefix_i = prefix_i & wildmask_i", "C05 C01"),
    ("M05", "wildcard.py", "        self._ipnets = None\n\n    @property\n    def max_ncwb", "\n    @property\n    def max_ncwb", "C05"),
    ("M10", "addr_group.py", "            address.sequence = h.init_int(idx)\n", "", "C06 C12"),
    ("M11", "address_base.py", "        addr_o.note = None\n", "", "C14"),
    ("M12", "option.py", "        self._flags = [s for s in options if s not in LOGS]",
     "        self._flags = [s for s in options if s not in LOGS and s != \"urg\"]", "C01 C03"),
    ("M13", "ace.py", "            if \"wildcard\" in [self.dstaddr.type, other.dstaddr.type]:\n                if not (self.dstaddr.ipnet and other.dstaddr.ipnet):\n                    return False",
     "            if \"wildcard\" in [self.dstaddr.type]:\n                if not (self.dstaddr.ipnet and other.dstaddr.ipnet):\n                    return False", "C11"),
    ("M14", "acl.py", "        acl_new.ungroup()\n        aces: LStr = [o.line for o in acl_new.items]",
     "        acl_new.ungroup()\n        acl_new.resequence(0)\n        aces: LStr = [o.line for o in acl_new.items]", "C04"),
    ("M15", "address_base.py", "                if self.ipnet.prefixlen == 32:\n                    self._type = \"host\"\n                elif str(self.ipnet) == \"0.0.0.0/0\":",
     "                if self.ipnet.prefixlen >= 31:\n                    self._type = \"host\"\n                elif str(self.ipnet) == \"0.0.0.0/0\":", "C02 C01 C06"),
    ("M16", "address_ag.py", "            elif self.ipnet.prefixlen == 32:\n                self._type = \"host\"",
     "            elif self.ipnet.prefixlen >= 31:\n                self._type = \"host\"", "C02 C06"),
    ("M21", "helpers.py", "        if sequence > SEQUENCE_MAX:", "        if sequence > SEQUENCE_MAX + 1:", "C10"),
    ("M22", "ace_group.py", "            if id_ < count:\n                sequence += step\n        return sequence\n\n    def ungroup_ports", "            if id_ <= count:\n                sequence += step\n        return sequence\n\n    def ungroup_ports", "C10"),
    ("M23", "helpers.py", "        if start and step < 1:", "        if start and step < 0:", "C10"),
    ("M40", "helpers.py", "            if bottom.subnet_of(top):\n                break", "            if bottom.overlaps(top):\n                break", "C13 C03 C11"),
    ("M41", "address_base.py", "            if other_ipnet.subnet_of(self_ipnet):\n                return True\n            return False\n\n        # other=AddrGroup", "            if other_ipnet.overlaps(self_ipnet):\n                return True\n            return False\n\n        # other=AddrGroup", "C13"),
    ("M42", "addr_group.py", "                if other in item:\n                    return True\n            return False\n\n        if isinstance(other, AddrGroup):", "                if item in other:\n                    return True\n            return False\n\n        if isinstance(other, AddrGroup):", "C13"),
    ("M43", "helpers.py", "    if not (tops and bottoms):\n        return False", "    if not tops:\n        return False", "C03"),
    ("M50", "port_name.py", "    \"nntp\": 119,\n    \"bgp\": 179,\n    \"irc\": 194,\n    \"pim-auto-rp\": 496,\n    \"exec\": 512,\n    \"login\": 513,\n    \"cmd\": 514,", "    \"nntp\": 119,\n    \"bgp\": 178,\n    \"irc\": 194,\n    \"pim-auto-rp\": 496,\n    \"exec\": 512,\n    \"login\": 513,\n    \"cmd\": 514,", "C09"),
    ("M51", "port_name.py", "    items.update(set(TCP_NAME_PORT__NXOS))\n", "", "C09"),
    ("M52", "protocol.py", "    \"eigrp\": 88,\n    \"ospf\": 89,\n    \"nos\": 94,\n    \"pim\": 103,\n    \"pcp\": 108,\n}\nPROTOCOLS_NXOS", "    \"eigrp\": 88,\n    \"ospf\": 98,\n    \"nos\": 94,\n    \"pim\": 103,\n    \"pcp\": 108,\n}\nPROTOCOLS_NXOS", "C09"),
    ("M53", "port.py", "        port_name = PortName(protocol=self._protocol, platform=self._platform, version=self.version)\n        data = port_name.ports()", "        port_name = PortName(protocol=self._protocol, platform=\"ios\", version=self.version)\n        data = port_name.ports()", "C09"),
    ("M60", "ace.py", "        if self._action != other.action:\n            return False\n        if not self._shadow_of__protocol(other):", "        if not self._shadow_of__protocol(other):", "C03 C11 C04"),
    ("M61", "ace.py", "        if other.protocol.name == \"ip\":\n            return True", "        if other.protocol.name == \"ip\" or self._protocol.name == \"ip\":\n            return True", "C03 C11"),
    ("M62", "ace.py", "        tops = other.dstaddr.ipnets()\n        bottoms = self._dstaddr.ipnets()", "        tops = other.dstaddr.ipnets()\n        bottoms = self._dstaddr.ipnets()[:1]", "C03 C11"),
    ("M63", "ace.py", "        if other.srcport.operator:\n            top = set(other.srcport.ports)", "        if other.srcport.ports:\n            top = set(other.srcport.ports)", "C03 C04"),
    ("M64", "ace.py", "        if \"nc_wildcard\" in skip_:\n            if \"wildcard\" in [self.srcaddr.type, other.srcaddr.type]:", "        elif \"nc_wildcard\" in skip_:\n            if \"wildcard\" in [self.srcaddr.type, other.srcaddr.type]:", "C03 C11"),
    ("M65", "ace.py", "        if top := set(other.option.flags):\n            if bottom := set(self._option.flags):\n                diff = bottom.intersection(top)\n                return diff == bottom\n            return False", "        if top := set(other.option.flags):\n            if bottom := set(self._option.flags):\n                diff = bottom.intersection(top)\n                return diff == bottom\n            return True", "C03 C11"),
    ("M70", "acl.py", "                    shadow.add(ace_bottom.line)\n", "", "C11 C04"),
    ("M71", "acl.py", "            idx = aces.index(top) + 1", "            idx = aces.index(top)", "C04"),
    ("M72", "acl.py", "            items_bot = [o for o in items_bot if o.line not in shadow]", "            items_bot = [o for o in items_bot if o.line not in shadow and not isinstance(o, Remark)]", "C04"),
    ("M80", "ace.py", "                for item in ace_o_.dstport.items:\n                    ace_o = ace_o_.copy()", "                for item in ace_o_.dstport.items[:2]:\n                    ace_o = ace_o_.copy()", "C19 C02"),
    ("M81", "acl.py", "                aces: LAce = ace_o.ungroup_ports()\n                _items.extend(aces)\n                continue\n            if isinstance(ace_o, AceGroup):", "                aces: LAce = ace_o.ungroup_ports()\n                _items = aces + _items\n                continue\n            if isinstance(ace_o, AceGroup):", "C19 C02"),
    ("M82", "ace.py", "        if len(aces) == 1:\n            return [self]\n", "", "C19 C16"),
    ("M91", "address_base.py", "        if [o for o in ipnets if ipnet.subnet_of(o)]:\n            continue", "        if [o for o in ipnets if ipnet.overlaps(o)]:\n            continue", "C14"),
    ("M92", "address_base.py", "    return sorted(addresses_)", "    return addresses_", "C14"),
    ("M101", "address_ag.py", "        if self._sequence:\n            return f\"{self._sequence} {line_}\"", "        if self._sequence and self._platform != \"ios\":\n            return f\"{self._sequence} {line_}\"", "C02"),
    ("M102", "acl.py", "        ace = \"\\n\".join([f\"{self._indent}{o}\" for o in items])", "        ace = \"\\n\".join([f\"{self._indent or DEF_INDENT}{o}\" for o in items])", "C06"),
    ("M110", "functions.py", "        if len(ports_i) >= port_count:\n            items.append(ports_i)", "        if len(ports_i) > port_count:\n            items.append(ports_i)", "C18"),
    ("M111", "functions.py", "        if ports_i:\n            items.append(ports_i)\n\n    if not port_range:", "        if len(ports_i) > 1:\n            items.append(ports_i)\n\n    if not port_range:", "C18"),
    ("M120", "ace_group.py", "        if warning:\n            msg = f\"{line=} does not match ACE pattern\"\n            logging.warning(msg)\n        return None", "        return None", "C12"),
    ("M121", "ace_group.py", "            except ValueError as ex:\n                if warning:", "            except ValueError as ex:\n                if warning and \"protocol\" not in str(ex):", "C12"),
    ("M122", "acl.py", "            if isinstance(ace_o, (Ace, Remark)):\n                aces.append(ace_o)\n        self.items = aces", "            if isinstance(ace_o, Ace) or (isinstance(ace_o, Remark) and not aces[-1:] == [ace_o]):\n                aces.append(ace_o)\n        self.items = aces", "C12 C06"),
    ("M130", "acl.py", "            input=self._input.copy(),", "            input=self._input,", "C16"),
    ("M131", "ace_group.py", "                src_counter = len(item.srcaddr.items) or 1", "                src_counter = len(item.srcaddr.items) or 0", "C15"),
    ("M132", "acl.py", "            elif isinstance(item, AceGroup):\n                _ungrouped = self._ungroup(item.items)\n                ungrouped_l.extend(_ungrouped)", "            elif isinstance(item, AceGroup):\n                _ungrouped = self._ungroup(item.items[:3])\n                ungrouped_l.extend(_ungrouped)", "C15 C17"),
    ("M140", "config_parser.py", "            acl_d[\"output\"] = sorted(set(acl_d[\"output\"]))", "            acl_d[\"output\"] = sorted(set(acl_d[\"output\"]))[:1]", "C07"),
    ("M141", "functions.py", "                    address_ag_o.sequence = 0\n", "", "C07"),
    ("M142", "config_parser.py", "        config_l = [s for s in config_l if s and not s.startswith(\"!\")]", "        config_l = [s for s in config_l if s and not s.lstrip().startswith(\"!\") and not s.startswith(\"hostname\")]", "C07"),
    ("M30", "port.py", "            return [ports[0] - 1] if ports else [65535]", "            return [ports[0]] if ports else [65535]", "C08"),
    ("M31", "port.py", "            return [ports[-1] + 1] if ports else [1]", "            return [ports[1] + 1] if ports else [1]", "C08"),
    ("M32", "port.py", "        ports = sorted(ports)\n        if operator == \"eq\":", "        if operator == \"eq\":", "C08"),
    ("M33", "port.py", "        return sorted(ports)\n", "        return ports\n", "C08"),
    ("M34", "port.py", "            items = [i for i in all_ports if i > items[0]]", "            items = [i for i in all_ports if i >= items[0]]", "C08 C01"),
    ("M35", "helpers.py", "            if item_next - item <= 1:  # range", "            if item_next - item <= 2:  # range", "C08"),
    ("M36", "helpers.py", "    ports_ = [i for i in ports_calc if 1 <= i <= 65535]", "    ports_ = [i for i in ports_calc if 1 <= i < 65535]", "C08"),
    ("M37", "port.py", "            return [ports[0] - 1] if ports else [65535]", "            return [ports[0] - 1]", "C08"),
]


def main(argv):
    tier, props_filter, ids = "quick", None, []
    i = 0
    while i < len(argv):
        if argv[i] == "--tier":
            tier = argv[i + 1]; i += 2
        elif argv[i] == "--props":
            props_filter = set(argv[i + 1].split(",")); i += 2
        else:
            ids.append(argv[i]); i += 1
    claimed = {c["property_id"] for c in json.load(open(os.path.join(VERIF, "MANIFEST.json")))["checks"]}
    results = {}
    for mid, f, old, new, props in MUTANTS:
        if ids and mid not in ids:
            continue
        targets = [p for p in props.split() if p in claimed and (not props_filter or p in props_filter)]
        if not targets:
            continue
        d = tempfile.mkdtemp(prefix="verif_mut_")
        try:
            shutil.copytree("/repo/cisco_acl", d + "/cisco_acl")
            p = d + "/cisco_acl/" + f
            s = open(p).read()
            if s.count(old) != 1:
                results[mid] = f"PATTERN x{s.count(old)}"
                print(mid, results[mid], flush=True)
                continue
            open(p, "w").write(s.replace(old, new))
            for prop in targets:
                r = subprocess.run([os.path.join(VERIF, "verify"), prop, "--tier", tier], cwd=VERIF,
                                   env={**os.environ, "VERIF_REPO": d, "VERIF_NO_EVIDENCE": "1"}, capture_output=True, text=True)
                first = [l for l in r.stdout.splitlines() if l.startswith("VIOLATION") or l.startswith("INCONCLUSIVE")][:1]
                nxt = [l for l in r.stdout.splitlines() if l.startswith("   harness=")][:1]
                verdict = {0: "MISSED", 1: "caught" if "VIOLATION property=" in r.stdout else "exit1-without-VIOLATION", 2: "inconclusive"}.get(r.returncode, f"exit {r.returncode}")
                results[f"{mid}/{prop}"] = verdict
                print(mid, f, prop, "->", verdict, (nxt or first or [""])[0][:260], r.stdout.strip().splitlines()[-1][-120:] if r.stdout.strip() else r.stderr[-300:], flush=True)
        finally:
            shutil.rmtree(d, ignore_errors=True)
    print(json.dumps(results, indent=1))


if __name__ == "__main__":
    main(sys.argv[1:])
