#!/bin/bash
# Run one tier of every claimed check in sequence (development aid): tools/sweep.sh quick|thorough [ids...]
tier=${1:-quick}; shift
ids=${@:-C01 C02 C03 C04 C05 C06 C07 C08 C09 C10 C11 C12 C13 C14 C15 C16 C17 C18 C19 C20}
cd "$(dirname "$0")/.."
for c in $ids; do
  s=$(date +%s)
  timeout ${SWEEP_TIMEOUT:-3000} ./verify $c --tier $tier > /tmp/sweep_${tier}_$c.log 2>&1
  rc=$?
  echo "$c $tier exit=$rc $(( $(date +%s) - s ))s :: $(grep -v '^KNOWN' /tmp/sweep_${tier}_$c.log | tail -1 | cut -c1-220)"
done
