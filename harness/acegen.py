"""ACE skeletons: from a row of structural choices build the input text AND, independently, its Cisco meaning.

Used by every harness that needs ACE inputs.  Data (bases, ports, sequence, protocol numbers) are symbolic; the
row (which keywords, which operator, which mask, whitespace...) is structure."""
from symx.core import V, Or_, And_, Not_
from symx import text as T
from oracle import tables as tb
from oracle.packet import Rule, addr_pred, port_pred, ALL
from .common import m2i, i2m

SEQ_MAX = 4294967295

ADDR_FORMS = ["any", "host", "zero", "ones", "wild:0.0.0.255", "wild:0.0.0.1", "wild:0.0.1.3", "wild:128.0.0.1",
              "wild:0.0.5.0", "wild:127.255.255.255", "prefix:24", "prefix:31", "prefix:32", "prefix:0", "prefix:1",
              "prefixu:24", "group"]
PORT_FORMS = ["none", "eq1", "eq2", "eq3", "neq1", "neq2", "gt", "lt", "range", "eqname", "rangename"]
PROTO_FORMS = ["ip", "tcp", "udp", "icmp", "gre", "ospf", "n6", "n17", "nsym", "n4", "n41"]
FLAG_SETS = [[], ["ack"], ["fin"], ["psh"], ["rst"], ["syn"], ["urg"], ["ack", "syn"], ["ack", "rst"],
             ["ack", "fin", "psh", "rst", "syn", "urg"]]
LOG_FORMS = ["", "log", "log-input"]
WS_FORMS = ["single", "double", "tab", "edges"]
NAME_NUMBERS = sorted(set(tb.TCP.values()) | set(tb.UDP.values()))
EQNAME = {"tcp": ("www", 80), "udp": ("ntp", 123)}
RANGENAME = {"tcp": (("ftp-data", 20), ("telnet", 23)), "udp": (("bootps", 67), ("tftp", 69))}


def proto_of(form):
    return {"n6": "tcp", "n17": "udp"}.get(form, form)


def row_valid(row, standard=False):
    """skeleton combinations that are valid ACEs of the platform (the property's domain)"""
    p = proto_of(row["proto"])
    for side in ("sp", "dp"):
        f = row.get(side, "none")
        if f != "none" and p not in ("tcp", "udp"):
            return False
        if row["platform"] != "ios" and f in ("eq2", "eq3", "neq2"):
            return False
    if row.get("flags") and p != "tcp":
        return False
    if row["proto"] == "nsym" and (row.get("flags")):
        return False
    return True


class AceSkel:
    pass


def _addr(ctx, form, name, platform):
    """-> (text, predicate(field) | None for an unresolved group, (kind, base, mask))"""
    if form == "any":
        return "any", True, ("any", 0, ALL)
    if form == "group":
        kw = "object-group" if platform == "ios" else "addrgroup"
        return kw + " GRP" + name.upper(), None, ("group", "GRP" + name.upper(), None)
    if form.startswith("groupm:"):
        # address group WITH members attached (each member: free base under the given wildcard mask)
        kw = "object-group" if platform == "ios" else "addrgroup"
        members, lines = [], []
        for k, m in enumerate(form[7:].split("+")):
            s, v = T.fresh_quad(ctx, f"{name}m{k}_")
            mi = m2i(m)
            members.append((v, mi))
            lines.append(("host " + s) if (mi == 0 and k % 2 == 0) else (s + " " + m))
        pred = (lambda f, members=members: Or_([addr_pred(f, v, mi) for v, mi in members]))
        return kw + " GRP" + name.upper(), pred, ("groupm", "GRP" + name.upper(), members, lines)
    s, v = T.fresh_quad(ctx, name)
    if form == "host":
        return "host " + s, (lambda f, v=v: V(f) == V(v)), ("host", v, 0)
    if form == "zero":
        return s + " 0.0.0.0", (lambda f, v=v: V(f) == V(v)), ("wild", v, 0)
    if form == "ones":
        return s + " 255.255.255.255", True, ("wild", v, ALL)
    if form.startswith("wild:"):
        mi = m2i(form[5:])
        return s + " " + form[5:], (lambda f, v=v, mi=mi: addr_pred(f, v, mi)), ("wild", v, mi)
    ln = int(form.split(":")[1])
    hm = (1 << (32 - ln)) - 1
    if form.startswith("prefix:"):
        ctx.assume((V(v) & hm) == 0)
    return s + "/" + str(ln), (lambda f, v=v, hm=hm: addr_pred(f, v, hm)), ("wild", v, hm)


def _port(ctx, form, name, proto, port_nr, umax_small, hi_all=65535, ordered_range=False):
    """-> (text, predicate(field), (op, operands) | None)"""
    if form == "none":
        return "", True, None

    def free(k, lo=1, hi=None):
        hi = hi_all if hi is None else min(hi, hi_all)
        if not ctx.symbolic:
            hi = 65535          # replay: values found in a shrunk universe may have been transported to the real one
        p = ctx.fresh(f"{name}{k}", lo, hi)
        if not port_nr:
            # rendering by name walks the name table: keep free ports off the table (names are C09's subject)
            ctx.assume(And_([V(p) != n for n in NAME_NUMBERS if lo <= n <= hi]))
        return p
    if form in ("eq1", "eq2", "eq3", "neq1", "neq2"):
        op, n = form[:-1], int(form[-1])
        if op == "neq":
            ops = [free(k, 1, umax_small if n == 1 else min(4, umax_small)) for k in range(n)]     # C(4,2)=6 paths for two operands
        else:
            ops = [free(k) for k in range(n)]
        for a, b in zip(ops, ops[1:]):
            ctx.assume(V(a) < V(b))                 # symmetry breaking: the library sorts operands
    elif form in ("gt", "lt"):
        op, ops = form, [free(0, 1, umax_small)]
    elif form == "range":
        op = "range"
        a = free("a")
        b = free("b")
        ctx.assume(And_(V(b) - V(a) <= 2, V(a) - V(b) <= 2))
        if ordered_range:
            ctx.assume(V(a) <= V(b))
        ops = [a, b]
    elif form == "eqname":
        nm, nr = EQNAME[proto]
        return "eq " + nm, (lambda f, nr=nr: V(f) == nr), ("eq", [nr])
    elif form == "rangename":
        (n1, v1), (n2, v2) = RANGENAME[proto]
        return f"range {n1} {n2}", (lambda f, v1=v1, v2=v2: And_(V(f) >= v1, V(f) <= v2)), ("range", [v1, v2])
    else:
        raise ValueError(form)
    text = op
    for o in ops:
        text = text + " " + T.num(o)
    return text, (lambda f, op=op, ops=ops: port_pred(op, ops, f)), (op, ops)


def uses_universe(row):
    return any(row.get(k, "none") in ("neq1", "neq2", "gt", "lt") for k in ("sp", "dp"))


def build_ace(ctx, row, tag="", small=8, shrink=None, closed_world=False, ordered_range=False):
    """closed_world: when the port universe is shrunk, ALL port operands stay inside it (pairs of ACEs)"""
    platform = row["platform"]
    port_nr = row.get("port_nr", True)
    sk = AceSkel()
    sk.row = row
    if shrink is None:
        shrink = uses_universe(row)
    if shrink and ctx.symbolic:
        from symx import shims
        shims.PORT_MAX = small
    sk.umax = small if (shrink and ctx.symbolic) else 65535
    hi_all = small if (shrink and closed_world) else 65535
    toks = []
    sk.seq = 0
    if row.get("seq", "none") == "sym":
        sk.seq = ctx.fresh(tag + "seq", 1, SEQ_MAX)
        toks.append(T.num(sk.seq))
    sk.action = row["act"]
    toks.append(sk.action)
    pf = row["proto"]
    pname = proto_of(pf)
    if pf == "nsym":
        sk.proto = ctx.fresh(tag + "proto", 0, 255)
        ctx.assume(And_(V(sk.proto) != 6, V(sk.proto) != 17) if (row.get("sp", "none") != "none" or row.get("dp", "none") != "none") else True)
        toks.append(T.num(sk.proto))
    elif pf in ("n6", "n17", "n4", "n41"):
        sk.proto = int(pf[1:])
        toks.append(pf[1:])
    else:
        sk.proto = tb.PROTO[pf]
        toks.append(pf)
    sa_t, sk.src_p, sk.src = _addr(ctx, row["sa"], tag + "s", platform)
    sp_t, sk.sport_p, sk.sport = _port(ctx, row.get("sp", "none"), tag + "sp", pname, port_nr, small, hi_all, ordered_range)
    da_t, sk.dst_p, sk.dst = _addr(ctx, row["da"], tag + "d", platform)
    dp_t, sk.dport_p, sk.dport = _port(ctx, row.get("dp", "none"), tag + "dp", pname, port_nr, small, hi_all, ordered_range)
    toks += [sa_t, sp_t, da_t, dp_t]
    sk.flags = list(row.get("flags") or [])
    sk.logs = [row["log"]] if row.get("log") else []
    toks += sk.flags + sk.logs
    toks = [t for t in toks if not (type(t) is str and t == "")]
    ws = row.get("ws", "single")
    sep = {"single": " ", "double": "  ", "tab": "\t", "edges": " "}[ws]
    line = T.join(toks, sep)
    if ws == "edges":
        line = "  " + line + " "
    sk.text = line
    sk.unresolved = sk.src_p is None or sk.dst_p is None
    sk.kwargs = {}
    for key, d, t in (("srcaddr", sk.src, sa_t), ("dstaddr", sk.dst, da_t)):
        if d[0] == "groupm":
            sk.kwargs[key] = dict(line=t, platform=platform, items=list(d[3]))
    sk.rule = Rule(sk.action, sk.proto, sk.src_p if sk.src_p is not None else True,
                   sk.dst_p if sk.dst_p is not None else True, sk.sport_p, sk.dport_p, sk.flags, sk.seq, sk.logs)
    return sk


DIMS = dict(
    platform=["ios", "nxos"], version=["0", "15.2", "16.9", "9.3"], port_nr=[True, False], protocol_nr=[True, False],
    act=["permit", "deny"], seq=["none", "sym"], proto=PROTO_FORMS, sa=ADDR_FORMS, da=ADDR_FORMS, sp=PORT_FORMS,
    dp=PORT_FORMS, flags=FLAG_SETS, log=LOG_FORMS, ws=WS_FORMS,
)
