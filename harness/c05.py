"""C05 - Wildcard -> prefixes is exact; limits reject, never truncate; no stale results."""
import z3

from symx.core import Z, B
from symx import text as T
from .common import (Spec, Claims, ALL, m2i, i2m, low_run, stray_bits, contiguous, mask_family, dense_masks, chunks,
                     in_net_z3, wild_pred)

PROPERTY = "C05"
BOUNDS = ("base address and probe address symbolic over all 2^32 values; wildcard masks are STRUCTURE: quick = B-M(2) "
          "(low run of t ones + <=2 further bits, 5489 masks) + 64 dense masks with 4..8 stray bits; thorough = B-M(3) + dense; "
          "limit harness: one representative mask per k=0..31 (two for small k) with max_ncwb symbolic over [-3,40]; "
          "history harness: <=2 (quick) / <=3 (thorough) line reassignments on one object over 8 masks, limits {default,0,1,2}; "
          "Address-level views over 40 masks. Masks outside these families are outside the claim.")
ASSUMPTIONS = ["masks are enumerated structurally (the mask drives list shapes and itertools.product)"]

HIST_MASKS = ["0.0.0.0", "0.0.0.255", "0.0.1.3", "0.0.2.3", "128.0.0.1", "255.255.255.255", "0.0.3.0", "0.85.0.1"]


def _masks(tier):
    fam = mask_family(2 if tier == "quick" else 3)
    return sorted(set(fam) | set(dense_masks()))


def _check_view(ctx, w, base, mi, x, tag, want_count=True):
    """All claims about one Wildcard object that must describe (base, mask mi)."""
    k = stray_bits(mi)
    cl = Claims(ctx)
    nets = w.ipnets()
    ctx.observe(tag + "line", w.line)
    ctx.observe(tag + "count", len(nets))
    ctx.observe(tag + "first", [T.ival(nets[0].network_address), nets[0].prefixlen] if nets else None)
    inside = z3.Or(*[in_net_z3(x, n) for n in nets]) if nets else z3.BoolVal(False)
    cl(tag + "exact-cover", inside != wild_pred(x, base, mi))
    cl(tag + "count-2^k", len(nets) != 2 ** k)
    plen = 32 - low_run(mi)
    cl(tag + "equal-length", any(n.prefixlen != plen for n in nets))
    addrs = [Z(T.ival(n.network_address)) for n in nets]
    if len(addrs) > 1:
        # pairwise distinct network addresses (+ equal length + alignment = pairwise disjoint networks);
        # pairs whose equality simplifies to false (different constant stray bits) need no solver
        same = []
        for i in range(len(addrs)):
            for j in range(i + 1, len(addrs)):
                e = z3.simplify(addrs[i] == addrs[j])
                if not z3.is_false(e):
                    same.append(e)
        cl(tag + "no-overlap", z3.Or(*same) if same else False)
    hm = (1 << low_run(mi)) - 1
    cl(tag + "aligned", z3.Or(*[a & hm != 0 for a in addrs]) if addrs else True)
    # single network reported exactly when the mask is contiguous
    if contiguous(mi):
        if w.ipnet is None:
            cl(tag + "ipnet-present", True)
        else:
            cl(tag + "ipnet-equals", z3.Or(Z(T.ival(w.ipnet.network_address)) != Z(base & (~mi & ALL)),
                                                   z3.BoolVal(w.ipnet.prefixlen != plen)))
    else:
        cl(tag + "ipnet-none", w.ipnet is not None)
    # text views
    cl(tag + "wildmask-text", z3.Not(B(w.wildmask == i2m(mi))))
    cl(tag + "prefix-value", Z(T.ival(w._prefix)) != Z(base & (~mi & ALL)))
    cl.done()


def h_exact(ctx):
    from cisco_acl.wildcard import Wildcard
    mask_i = ctx.pick("mask", MASKS[ctx.pick("chunk", list(range(len(MASKS))))])
    base_s, base = T.fresh_quad(ctx, "a")
    x = ctx.fresh("x", 0, ALL)
    k = stray_bits(mask_i)
    w = Wildcard(base_s + " " + i2m(mask_i), max_ncwb=max(k, 0) if k <= 30 else 30)
    ctx.reach("built")
    _check_view(ctx, w, base, mask_i, x, "")
    return None


def _rep_masks():
    """representative masks per k = 0..31 stray bits"""
    out = []
    for k in range(0, 32):
        # low run of 0 ones, stray bits at positions 1..k  -> k stray bits, bit 0 clear
        out.append(sum(1 << b for b in range(1, k + 1)))
        if k <= 29:
            # low run of 2 ones, bit 2 clear, stray bits from the top
            out.append(3 | sum(1 << (31 - b) for b in range(k)))
    return sorted(set(out))


def h_limit(ctx):
    import ipaddress
    from cisco_acl.wildcard import Wildcard
    mask_i = ctx.pick("mask", _rep_masks())
    k = stray_bits(mask_i)
    base_s, base = T.fresh_quad(ctx, "a")
    limit = ctx.fresh("limit", -3, 40)
    in_range = z3.And(Z(limit) >= 0, Z(limit) <= 30)
    try:
        w = Wildcard(base_s + " " + i2m(mask_i), max_ncwb=limit)
    except ipaddress.NetmaskValueError:
        ctx.reach("over-limit")
        ctx.observe("outcome", "NetmaskValueError")
        ctx.claim("reject-only-over-limit", z3.Not(z3.And(in_range, Z(limit) < k)))
        return None
    except (ValueError, TypeError) as e:
        ctx.reach("bad-limit")
        ctx.observe("outcome", type(e).__name__)
        ctx.claim("bad-limit-only-outside-0..30", in_range)
        return None
    ctx.reach("built")
    ctx.observe("outcome", "built")
    ctx.claim("accept-only-within-limit", z3.Not(z3.And(in_range, Z(limit) >= k)))
    if k <= 6:
        nets = w.ipnets()
        ctx.observe("count", len(nets))
        ctx.claim("never-truncated", len(nets) != 2 ** k)
    return None


def h_history(ctx):
    """Reassign the line of ONE object; after each assignment every derived value must describe the new line."""
    import ipaddress
    from cisco_acl.wildcard import Wildcard
    steps = ctx.pick("steps", [2] if ctx.tier == "quick" else [2, 3])
    lim = ctx.pick("limit", [None, 0, 1, 2])
    x = ctx.fresh("x", 0, ALL)
    w = None
    for i in range(steps):
        mask = ctx.pick(f"m{i}", HIST_MASKS)
        mi = m2i(mask)
        k = stray_bits(mi)
        base_s, base = T.fresh_quad(ctx, f"a{i}_")
        eff = 16 if lim is None else lim
        try:
            if w is None:
                w = Wildcard(base_s + " " + mask, **({} if lim is None else dict(max_ncwb=lim)))
            else:
                w.line = base_s + " " + mask
        except ipaddress.NetmaskValueError:
            ctx.observe(f"s{i}", "NetmaskValueError")
            ctx.reach("rejected")
            ctx.claim(f"s{i}:reject-only-over-limit", k <= eff)
            if w is None:
                return None
            continue          # object keeps describing SOMETHING; next assignment must still be honoured
        ctx.claim(f"s{i}:accept-only-within-limit", k > eff)
        if k > eff:
            return None
        ctx.reach("assigned")
        if i:
            ctx.reach("reassigned")
        _check_view(ctx, w, base, mi, x, f"s{i}:")
    return None


ADDR_MASKS = ["0.0.0.0", "0.0.0.1", "0.0.0.255", "0.0.1.255", "0.0.1.3", "0.0.2.3", "128.0.0.1", "255.255.255.255",
              "0.0.3.0", "0.85.0.1", "127.255.255.255", "0.255.0.255"]


def h_address(ctx):
    """Address-level derived views (ipnets, prefixes, subnets, wildcards) of a wildcard address."""
    from cisco_acl import Address
    mask = ctx.pick("mask", ADDR_MASKS)
    mi = m2i(mask)
    k = stray_bits(mi)
    platform = ctx.pick("platform", ["ios", "nxos"])
    base_s, base = T.fresh_quad(ctx, "a")
    x = ctx.fresh("x", 0, ALL)
    a = Address(base_s + " " + mask, platform=platform)
    ctx.reach("built")
    nets = a.ipnets()
    ctx.observe("line", a.line)
    ctx.observe("nets", [[T.ival(n.network_address), n.prefixlen] for n in nets][:4])
    inside = z3.Or(*[in_net_z3(x, n) for n in nets]) if nets else z3.BoolVal(False)
    ctx.claim("addr-exact-cover", inside != wild_pred(x, base, mi))
    ctx.claim("addr-count", len(nets) != 2 ** k)
    prefixes = a.prefixes()
    subnets = a.subnets()
    wildcards = a.wildcards()
    ctx.observe("prefixes", list(prefixes)[:4])
    ctx.observe("subnets", list(subnets)[:4])
    ctx.observe("wildcards", list(wildcards)[:4])
    ctx.claim("views-count", not (len(prefixes) == len(subnets) == len(nets) and len(wildcards) == 1))
    plen = 32 - low_run(mi)
    hm = (1 << low_run(mi)) - 1
    for n, p, s in zip(nets, prefixes, subnets):
        na = T.quad_of_value(T.ival(n.network_address))
        ctx.claim("prefix-text", z3.Not(B(p == na + "/" + str(plen))))
        ctx.claim("subnet-text", z3.Not(B(s == na + " " + i2m(ALL ^ hm))))
    # a wildcard address has exactly one wildcard view: its own normalised line
    ctx.claim("wildcard-text", z3.Not(B(wildcards[0] == T.quad_of_value(base & (~mi & ALL)) + " " + mask)))
    return None


MASKS = []


def specs(tier, seed, concrete=False):
    global MASKS
    MASKS = chunks(_masks(tier), 24)
    return [
        Spec("exact", h_exact, [{"chunk": i} for i in range(len(MASKS))], goals=["built"],
             describe="Wildcard(line) + ipnets()/ipnet/prefix/wildmask vs bit algebra, one mask per path"),
        Spec("limit", h_limit, [{"mask": m} for m in _rep_masks()], goals=["over-limit", "bad-limit", "built"],
             describe="max_ncwb symbolic: reject iff k > limit, never a shorter list"),
        Spec("history", h_history, [{"steps": s, "limit": l, "m0": m} for s in ([2] if tier == "quick" else [2, 3])
                                    for l in [None, 0, 1, 2] for m in HIST_MASKS],
             goals=["assigned", "reassigned", "rejected"],
             describe="line reassignment on one object interleaved with queries (lru_cache left alone inside a path)"),
        Spec("address", h_address, [{"mask": m} for m in ADDR_MASKS], goals=["built"],
             describe="Address.ipnets/prefixes/subnets/wildcards of wildcard addresses"),
    ]
