"""C08 - Port operators denote exactly the Cisco port sets; views write back losslessly."""
import itertools

import z3

from symx.core import Z, B, V, Or_, And_, Not_, If_, Iff_, Xor_
from symx import text as T
from .common import Spec, Claims

PROPERTY = "C08"
BOUNDS = ("eq/neq operand lists of 1..3 (quick) / 1..4 (thorough) free symbolic ports over 1..65535, unsorted and duplicates "
          "allowed; range a b with both bounds symbolic over 1..65535 in either order, |b-a| <= 3 (quick) / 8 (thorough); "
          "neq/gt/lt: port universe shrunk to 1..8 (quick) / 1..12 (thorough) with operands symbolic over 0..n+1 (B-U), and "
          "the REAL universe 1..65535 with operands symbolic inside the windows [1,4] and [65532,65535] (B-W); "
          "range-string codec: arbitrary multisets of <=3 (quick) / 4 (thorough) symbolic ports over 1..65535 (every adjacency "
          "pattern is a path); write-back histories of length <=2 (quick) / 3 (thorough) over {items, ports, sport}.")
ASSUMPTIONS = ["neq/gt/lt operands strictly between the windows are covered through the shrunk universe only",
               "operands stay within 1..65535 as the property says"]


def _setmax(ctx, n):
    if ctx.symbolic:
        from symx import shims
        shims.PORT_MAX = n
    return n if ctx.symbolic else 65535


def _member(p, xs):
    """p in xs; concrete members are compressed into runs so that 65 000 ports cost a handful of comparisons"""
    if type(p) is int:
        return p in xs
    conc = sorted(x for x in xs if type(x) is int)
    terms = [V(p) == V(x) for x in xs if type(x) is not int]
    i = 0
    while i < len(conc):
        j = i
        while j + 1 < len(conc) and conc[j + 1] - conc[j] <= 1:
            j += 1
        terms.append(V(p) == conc[i] if i == j else And_(V(p) >= conc[i], V(p) <= conc[j]))
        i = j + 1
    return Or_(terms)


def _pred(op, ops, p, umax):
    """Cisco meaning of `op operands` within 1..umax, for probe port p"""
    zp = V(p)
    o = [V(x) for x in ops]
    if op == "eq":
        return Or_([zp == x for x in o])
    if op == "neq":
        return And_([zp != x for x in o])
    if op == "gt":
        return zp > o[0]
    if op == "lt":
        return zp < o[0]
    lo = If_(o[0] <= o[1], o[0], o[1])
    hi = If_(o[0] <= o[1], o[1], o[0])
    return And_(zp >= lo, zp <= hi)


def _build(ctx, op, n_ops, lo, hi, width=None):
    ops = [ctx.fresh(f"o{i}", lo, hi) for i in range(n_ops)]
    if op == "range" and width is not None:
        ctx.assume(And_(V(ops[1]) - V(ops[0]) <= width, V(ops[0]) - V(ops[1]) <= width))
    line = op
    for o in ops:
        line = line + " " + T.num(o)
    return ops, line


def _sport_runs(sport):
    """Independent reader of the compact range string -> list of (lo, hi) (dual mode)."""
    runs = []
    if type(sport) is str and sport == "":
        return runs
    for item in sport.split(","):
        ab = item.split("-")
        if len(ab) == 1:
            v = T.toint(ab[0])
            runs.append((v, v))
        else:
            runs.append((T.toint(ab[0]), T.toint(ab[1])))
    return runs


def _check_port(ctx, port, op, ops, p, umax, tag, cl, text_line=None):
    """claims: the parsed port set is exactly the Cisco set; sport encodes exactly that set in maximal ascending runs"""
    ports = port.ports
    cl(tag + "ports-exact", And_(V(p) >= 1, V(p) <= umax, Xor_(_member(p, ports), _pred(op, ops, p, umax))))
    cl(tag + "ports-in-universe", Or_([Or_(V(q) < 1, V(q) > umax) for q in ports]))
    cl(tag + "operator", not (port.operator == op))
    runs = _sport_runs(port.sport)
    in_runs = Or_([And_(V(p) >= V(a), V(p) <= V(b)) for a, b in runs])
    cl(tag + "sport-exact", And_(V(p) >= 1, V(p) <= umax, Xor_(in_runs, _pred(op, ops, p, umax))))
    bad_shape = [V(a) > V(b) for a, b in runs] + [V(runs[i + 1][0]) <= V(runs[i][1]) + 1 for i in range(len(runs) - 1)]
    cl(tag + "sport-maximal-ascending", Or_(bad_shape))


def h_eq_range(ctx):
    """eq (1..k operands, free) and range (either order) over the full universe"""
    from cisco_acl import Port
    op = ctx.pick("op", ["eq", "range"])
    k = 3 if ctx.tier == "quick" else 4
    if op == "eq":
        n = ctx.pick("n", list(range(1, k + 1)))
        ops, line = _build(ctx, op, n, 1, 65535)
    else:
        ops, line = _build(ctx, op, 2, 1, 65535, width=ctx.pick("width", [3] if ctx.tier == "quick" else [3, 8]))
    proto = ctx.pick("proto", ["tcp", "udp"])
    p = ctx.fresh("p", 1, 65535)
    port = Port(line, platform="ios", protocol=proto, port_nr=True)
    ctx.reach(op)
    ctx.observe("line", port.line)
    ctx.observe("items", list(port.items))
    ctx.observe("sport", port.sport)
    cl = Claims(ctx)
    _check_port(ctx, port, op, ops, p, 65535, "", cl)
    # rendered text read back: same operator, operands denote the same set
    toks = port.line.split()
    cl("line-operator", not (toks[0] == op))
    vals = [T.toint(t) for t in toks[1:]]
    cl("line-meaning", Xor_(_pred(op, vals, p, 65535), _pred(op, ops, p, 65535)))
    cl.done()
    return None


def h_universe(ctx):
    """neq/gt/lt (and eq) in a shrunk universe 1..n: every relative order of operands and universe bounds"""
    from cisco_acl import Port
    n = 8 if ctx.tier == "quick" else 12
    umax = _setmax(ctx, n)
    op = ctx.pick("op", ["neq", "gt", "lt"])
    nops = ctx.pick("nops", [1, 2]) if op == "neq" else 1
    ops, line = _build(ctx, op, nops, 0, umax + 1)
    p = ctx.fresh("p", 1, umax)
    port = Port(line, platform="ios", protocol="tcp", port_nr=True)
    ctx.reach(op)
    if not port.ports:
        ctx.reach("empty-set")
    ctx.observe("line", port.line)
    ctx.observe("items", list(port.items))
    ctx.observe("ports<=n", [q for q in port.ports if q <= n])
    cl = Claims(ctx)
    _check_port(ctx, port, op, ops, p, umax, "", cl)
    cl.done()
    return None


WINDOWS = {"low": (1, 4), "high": (65532, 65535)}


def h_window(ctx):
    """neq/gt/lt at the REAL universe, operand inside a window at either end"""
    from cisco_acl import Port
    op = ctx.pick("op", ["neq", "gt", "lt"])
    lo, hi = WINDOWS[ctx.pick("window", ["low", "high"])]
    ops, line = _build(ctx, op, 1, lo, hi)
    p = ctx.fresh("p", 1, 65535)
    port = Port(line, platform=ctx.pick("platform", ["ios", "nxos"]), protocol="tcp", port_nr=True)
    ctx.reach(op)
    ctx.observe("line", port.line)
    ctx.observe("n", len(port.ports))
    ctx.observe("sport", port.sport)
    cl = Claims(ctx)
    _check_port(ctx, port, op, ops, p, 65535, "", cl)
    cl.done()
    return None


GAPS = ["dup", "adjacent", "far"]
PERMS = ["sorted", "reversed", "rotated"]


def h_codec(ctx):
    """ports_to_string / string_to_ports on arbitrary sets of symbolic ports; the relative position of neighbours
    (duplicate / adjacent / apart) is structure, the values are symbolic over the whole universe"""
    from cisco_acl import helpers as h
    n = ctx.pick("n", [1, 2, 3] if ctx.tier == "quick" else [1, 2, 3, 4])
    xs = [ctx.fresh("x0", 1, 65535)]
    for i in range(1, n):
        g = ctx.pick(f"gap{i}", GAPS)
        if g == "dup":
            xs.append(xs[-1])
        elif g == "adjacent":
            xs.append(xs[-1] + 1)
        else:
            xs.append(xs[-1] + ctx.fresh(f"d{i}", 2, 65535))
    ctx.assume(V(xs[-1]) <= 65535)
    perm = ctx.pick("perm", PERMS)
    arg = list(xs) if perm == "sorted" else list(reversed(xs)) if perm == "reversed" else xs[1:] + xs[:1]
    p = ctx.fresh("p", 1, 65535)
    s = h.ports_to_string(arg)
    ctx.observe("string", s)
    runs = _sport_runs(s)
    cl = Claims(ctx)
    in_runs = Or_([And_(V(p) >= V(a), V(p) <= V(b)) for a, b in runs])
    cl("encode-exact", Xor_(in_runs, _member(p, xs)))
    bad_shape = [V(a) > V(b) for a, b in runs] + [V(runs[i + 1][0]) <= V(runs[i][1]) + 1 for i in range(len(runs) - 1)]
    cl("encode-maximal-ascending", Or_(bad_shape))
    back = h.string_to_ports(s)
    ctx.observe("decoded", sorted_obs(back))
    cl("decode-exact", Xor_(_member(p, list(back)), _member(p, xs)))
    cl.done()
    ctx.reach("codec")
    return None


def sorted_obs(xs):
    """observable of a collection whose order is unspecified: its length (elements may be symbolic)"""
    return len(list(xs))


VIEWS = ["items", "ports", "sport"]


def _assign(port, view):
    if view == "items":
        port.items = port.items
    elif view == "ports":
        port.ports = port.ports
    else:
        port.sport = port.sport


def h_writeback(ctx):
    """self-assignment through the three writable views leaves meaning and text unchanged"""
    from cisco_acl import Port
    op = ctx.pick("op", ["eq", "range", "neq", "gt", "lt"])
    hist = ctx.pick("hist", _histories(ctx.tier))
    if op in ("eq", "range"):
        umax = 65535
        if op == "eq":
            n_ops = ctx.pick("n", [1, 2, 3])
            ops, line = _build(ctx, op, n_ops, 1, 65535)
            # the port-list and range-string views are sets: duplicate operands cannot survive a write-back, so the
            # write-back domain is pairwise distinct operands (duplicates are covered by the parsing harness);
            # three operands additionally carry the symmetry-breaking order o0 < o1 < o2
            if n_ops == 2:
                ctx.assume(V(ops[0]) != V(ops[1]))
            if n_ops == 3:
                ctx.assume(And_(V(ops[0]) < V(ops[1]), V(ops[1]) < V(ops[2])))
        else:
            # every sport/ports step iterates a set of width+1 symbolic ports in every order: keep long histories narrow
            ops, line = _build(ctx, op, 2, 1, 65535, width=3 if len(hist) == 1 else 1)
    else:
        n = 8 if ctx.tier == "quick" else 12
        umax = _setmax(ctx, n)
        # operands inside the universe 1..n (gt n and lt 1 denote no port at all and are part of the domain)
        ops, line = _build(ctx, op, 1, 1, umax)
    p = ctx.fresh("p", 1, umax)
    port = Port(line, platform="ios", protocol="tcp", port_nr=True)
    before_line, before_items = port.line, list(port.items)
    ctx.observe("before", before_line)
    for i, view in enumerate(hist):
        try:
            _assign(port, view)
        except ValueError:
            ctx.observe(f"s{i}", "ValueError")
            ctx.claim(f"s{i}:{view}:refused", True)     # a self-assignment must be accepted
            return None
        ctx.reach("assigned:" + view)
        ctx.observe(f"s{i}", port.line)
        cl = Claims(ctx)
        cl(f"s{i}:{view}:line-unchanged", Not_(port.line == before_line))
        same_items = len(port.items) == len(before_items) and all_eq(port.items, before_items)
        cl(f"s{i}:{view}:items-unchanged", Not_(same_items))
        _check_port(ctx, port, op, ops, p, umax, f"s{i}:{view}:", cl)
        cl.done()
    return None


def isinstance_bool(x):
    return type(x) is bool


def all_eq(a, b):
    return And_([V(x) == V(y) for x, y in zip(a, b)])


def _histories(tier):
    n = 2 if tier == "quick" else 3
    out = []
    for k in range(1, n + 1):
        out.extend(list(h) for h in itertools.product(VIEWS, repeat=k))
    return out


def h_writeback_window(ctx):
    """write-back of gt/lt at the REAL universe with the operand in a window (incl. the empty sets lt 1 / gt 65535)"""
    from cisco_acl import Port
    op = ctx.pick("op", ["gt", "lt"])
    lo, hi = WINDOWS[ctx.pick("window", ["low", "high"])]
    view = ctx.pick("view", VIEWS)
    ops, line = _build(ctx, op, 1, lo, hi)
    p = ctx.fresh("p", 1, 65535)
    port = Port(line, platform="ios", protocol="tcp", port_nr=True)
    before_line = port.line
    ctx.observe("before", before_line)
    if not port.ports:
        ctx.reach("empty-set")
    try:
        _assign(port, view)
    except ValueError:
        ctx.observe("after", "ValueError")
        ctx.claim(f"{view}:refused", True)
        return None
    ctx.reach("assigned")
    ctx.observe("after", port.line)
    cl = Claims(ctx)
    cl(f"{view}:line-unchanged", Not_(port.line == before_line))
    _check_port(ctx, port, op, ops, p, 65535, f"{view}:", cl)
    cl.done()
    return None


def _codec_shards(tier):
    out = []
    for n in ([1, 2, 3] if tier == "quick" else [1, 2, 3, 4]):
        for gaps in itertools.product(GAPS, repeat=n - 1):
            d = {"n": n}
            d.update({f"gap{i + 1}": g for i, g in enumerate(gaps)})
            out.append(d)
    return out


def specs(tier, seed, concrete=False):
    hists = _histories(tier)
    return [
        Spec("eq_range", h_eq_range, [{"op": "eq", "n": n} for n in range(1, (3 if tier == "quick" else 4) + 1)]
             + [{"op": "range", "width": w} for w in ([3] if tier == "quick" else [3, 8])], goals=["eq", "range"],
             describe="eq lists (free, unsorted, duplicates) and range (either order) at the full universe"),
        Spec("universe", h_universe, [{"op": "neq", "nops": 1}, {"op": "neq", "nops": 2}, {"op": "gt"}, {"op": "lt"}],
             goals=["neq", "gt", "lt", "empty-set"], describe="neq/gt/lt in the shrunk universe, operands 0..n+1"),
        Spec("window", h_window, [{"op": o, "window": w} for o in ("neq", "gt", "lt") for w in ("low", "high")],
             goals=["neq", "gt", "lt"], describe="neq/gt/lt at the real universe, operand near either end"),
        Spec("codec", h_codec, _codec_shards(tier),
             goals=["codec"], describe="range-string codec on arbitrary port sets"),
        Spec("writeback", h_writeback, [{"op": o, "hist": hh} for o in ("range", "neq", "gt", "lt") for hh in hists]
             + [{"op": "eq", "n": n, "hist": hh} for n in (1, 2, 3) for hh in hists if n < 3 or len(hh) == 1],
             goals=["assigned:items", "assigned:ports", "assigned:sport"],
             describe="self-assignment histories through items/ports/sport"),
        Spec("writeback_window", h_writeback_window,
             [{"op": o, "window": w, "view": v} for o in ("gt", "lt") for w in ("low", "high") for v in VIEWS],
             goals=["assigned", "empty-set"], describe="gt/lt write-back at the real universe incl. empty sets"),
    ]


def replay_variants(v):
    """A counterexample found in the shrunk port universe 1..n (neq/gt/lt harnesses) is transported to the real universe:
    every operand/probe value >= t is shifted by 65535 - n, for every threshold t (order and equality are preserved)."""
    if v["choices"].get("op") not in ("neq", "gt", "lt") or v["spec"] not in ("universe", "writeback"):
        return []
    vals = v["values"]
    keys = [k for k in vals if k == "p" or (k[0] == "o" and k[1:].isdigit())]
    out = []
    for n in (8, 12):
        if not keys or max(vals[k] for k in keys) > n + 1:
            continue
        for t in range(n + 1, 0, -1):
            alt = dict(vals)
            for k in keys:
                if vals[k] >= t:
                    alt[k] = vals[k] + 65535 - n
            if alt != vals and alt not in out:
                out.append(alt)
    return out
