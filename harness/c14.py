"""C14 - Collapsing addresses preserves the covered address set exactly."""
import itertools
import random

from symx.core import V, Or_, And_, Not_, Iff_, Xor_
from symx import text as T
from oracle.packet import addr_pred, ALL
from .common import Spec, Claims, i2m, in_nets

PROPERTY = "C14"
BOUNDS = ("(o) one-element lists (net, host, any); (i) lists of 2 networks with BOTH bases free over 2^32 and prefix lengths from {0,8,23,24,25,31,32} "
          ": every relation the algorithm tests is reached by forking; (ii) lists of 2..4 (quick) / 2..5 (thorough) "
          "networks from 18 relation templates over ONE free base (siblings, sibling chains merging twice and three times, nested, "
          "duplicates, adjacent non-siblings, disjoint, merge result covering a later element, /31+/32, /1 halves, /0) in all orders "
          "(4-element lists: all 24 orders thorough, 12 seeded orders quick); both address classes, both platforms.")
ASSUMPTIONS = ["address_ag.collapse on IOS raising ValueError when the result is 0.0.0.0/0 is a refusal (an IOS object-group cannot "
               "express it) and is only checked to happen in exactly that case"]


def _net(octs, ln):
    return (octs, ln)


def _pool(ctx):
    a0, a1, a2 = (ctx.fresh(f"a{i}", 0, 255) for i in range(3))
    q = lambda o2, o3: [a0, a1, o2, o3]
    return {
        "S1": (q(a2, 0), 25), "S2": (q(a2, 128), 25), "S3": (q(a2 ^ 1, 0), 24), "N1": (q(a2, 64), 26), "D": (q(a2, 0), 25),
        "H1": (q(a2, 4), 32), "H2": (q(a2, 5), 32), "H3": (q(a2, 6), 31), "ADJ": (q(a2, 128), 26),
        "DIS": ([a0 ^ 128, a1, a2, 0], 24), "Z0": ([0, 0, 0, 0], 1), "Z1": ([128, 0, 0, 0], 1), "ANY": ([0, 0, 0, 0], 0),
        "W": (q(a2, 0), 24), "ADJd": (q(a2, 128), 26), "Q1": (q(a2, 128), 27), "Q1h": (q(a2, 128), 32), "Q2": (q(a2, 192), 27),
    }


TEMPLATES = {
    "sib": ["S1", "S2"], "chain2": ["S1", "S2", "S3"], "nested": ["S1", "N1"], "dup": ["S1", "D"], "adj": ["N1", "ADJ"],
    "disj": ["S1", "DIS"], "hosts": ["H1", "H2", "H3"], "mix4": ["S1", "S2", "N1", "H1"], "chain-dup": ["S3", "S2", "S1", "D"],
    "halves": ["Z0", "Z1"], "any": ["ANY", "S1"], "hosts-in": ["H1", "H2", "S1"], "cover-later": ["N1", "ADJ", "S2"],
    "chain-disj": ["S1", "S2", "S3", "DIS"], "whole-then-parts": ["W", "S1", "S2"],
    "one-net": ["S1"], "one-host": ["H1"], "one-any": ["ANY"],          # one-element lists go through the same contract (no note, kind, set)
    "dup-half-sibling": ["ADJ", "ADJd", "S1"], "nested-half-sibling": ["ADJ", "Q1", "Q1h", "S1"], "quarters": ["Q1", "Q2", "ADJ", "S1"],
}


def _spell(cls, platform, octs, ln):
    s = T.quad_of_octets(octs)
    hm = (1 << (32 - ln)) - 1
    if ln == 32 and not (cls == "Address" and platform == "nxos"):
        return "host " + s
    if platform == "nxos":
        return s + "/" + str(ln)
    if cls == "Address":
        return s + " " + i2m(hm)
    return s + " " + i2m(ALL ^ hm)


def _value(octs):
    return (octs[0] << 24) | (octs[1] << 16) | (octs[2] << 8) | octs[3]


def _run(ctx, cls, platform, nets, tag=""):
    """nets: [(octets, len)] -> claims about collapse(list)"""
    import cisco_acl
    from cisco_acl import Address, AddressAg, address, address_ag
    K = Address if cls == "Address" else AddressAg
    fn = address.collapse if cls == "Address" else address_ag.collapse
    x = ctx.fresh("x", 0, ALL)
    objs, inp = [], []
    for k, (octs, ln) in enumerate(nets):
        objs.append(K(_spell(cls, platform, octs, ln), platform=platform, note=f"n{k}"))
        inp.append(addr_pred(x, _value(octs), (1 << (32 - ln)) - 1))
    in_union = Or_(inp)
    try:
        out = fn(objs)
    except ValueError:
        ctx.reach("refused")
        ctx.observe("outcome", "ValueError")
        # only the IOS object-group member class may refuse, and only when the result is everything
        ctx.claim("refusal-only-for-everything-on-ios-ag", Or_(not (cls == "AddressAg" and platform == "ios"), Not_(in_union)))
        return
    ctx.reach("collapsed")
    ctx.observe("out", [o.line for o in out])
    cl = Claims(ctx)
    nets_out = []
    for o in out:
        cl("same-class", o.__class__.__name__ != cls)
        cl("same-platform", o.platform != platform)
        cl("no-note", bool(o.note))
        cl("contiguous", o.ipnet is None)
        if o.ipnet is not None:
            nets_out.append(o.ipnet)
    cl("set-preserved", Xor_(in_nets(x, nets_out), in_union))
    cl("never-more-elements", len(out) > len(nets))
    for a, b in zip(nets_out, nets_out[1:]):
        ka, kb = V(T.ival(a.network_address)), V(T.ival(b.network_address))
        cl("sorted", Or_(ka > kb, And_(ka == kb, a.prefixlen > b.prefixlen)))
    cl.done()


def h_free2(ctx):
    cls = ctx.pick("cls", ["Address", "AddressAg"])
    platform = ctx.pick("platform", ["ios", "nxos"])
    lens = [0, 8, 23, 24, 25, 31, 32]
    la, lb = ctx.pick("la", lens), ctx.pick("lb", lens)
    nets = []
    for name, ln in (("p", la), ("r", lb)):
        octs = [ctx.fresh(f"{name}{i}", 0, 255) for i in range(4)]
        hm = (1 << (32 - ln)) - 1
        ctx.assume((V(_value(octs)) & hm) == 0)
        nets.append((octs, ln))
    if cls == "AddressAg" and platform == "ios" and 0 in (la, lb):
        return None           # IOS members cannot spell 0.0.0.0/0
    _run(ctx, cls, platform, nets)
    return None


def h_template(ctx):
    cls = ctx.pick("cls", ["Address", "AddressAg"])
    platform = ctx.pick("platform", ["ios", "nxos"])
    name = ctx.pick("template", sorted(TEMPLATES))
    pool = _pool(ctx)
    members = TEMPLATES[name]
    order = ctx.pick("order", ORDERS[len(members)])
    if cls == "AddressAg" and platform == "ios" and "ANY" in members:
        return None
    nets = [pool[members[i]] for i in order]
    _run(ctx, cls, platform, nets)
    return None


def h_refuse(ctx):
    """non-contiguous wildcards and foreign object types are refused with TypeError"""
    from cisco_acl import Address, AddressAg, address, address_ag
    case = ctx.pick("case", REFUSE_CASES)
    s, v = T.fresh_quad(ctx, "a")
    try:
        if case == "nc-wildcard":
            address.collapse([Address(s + " 0.0.1.3"), Address("host " + s)])
        elif case == "nc-wildcard-alone":
            address.collapse([Address(s + " 0.0.1.3")])
        elif case == "nc-wildcard-last":
            address.collapse([Address("host " + s), Address(s + " 0.0.0.255"), Address(s + " 0.0.1.3")])
        elif case == "nc-wildcard-ag-alone":
            address_ag.collapse([AddressAg(s + " 0.0.1.3", platform="nxos")])
        elif case == "foreign-alone-after-valid":
            address.collapse([Address("host " + s), AddressAg("host " + s)])
        elif case == "foreign-in-address":
            address.collapse([AddressAg("host " + s)])
        elif case == "foreign-in-ag":
            address_ag.collapse([Address("host " + s)])
        else:
            address.collapse(["10.0.0.0 0.0.0.255"])
    except TypeError:
        ctx.reach("refused")
        ctx.observe("outcome", "TypeError")
        ctx.claim("refused", False)
        return None
    ctx.claim("must-refuse", True)
    return None


ORDERS = {}
REFUSE_CASES = ["nc-wildcard", "nc-wildcard-alone", "nc-wildcard-last", "nc-wildcard-ag-alone", "foreign-in-address", "foreign-in-ag",
                "foreign-alone-after-valid", "string"]


def specs(tier, seed, concrete=False):
    rnd = random.Random(seed)
    ORDERS[1] = [[0]]
    for n in (2, 3, 4, 5):
        perms = [list(p) for p in itertools.permutations(range(n))]
        if n >= 4 and tier == "quick":
            rnd.shuffle(perms)
            perms = sorted(perms[:12])
        if n == 5:
            rnd.shuffle(perms)
            perms = sorted(perms[:24])
        ORDERS[n] = perms
    lens = [0, 8, 23, 24, 25, 31, 32]
    return [
        Spec("free2", h_free2, [{"cls": c, "platform": p, "la": a, "lb": b} for c in ("Address", "AddressAg") for p in ("ios", "nxos")
                                for a in lens for b in lens if not (c == "AddressAg" and p == "ios" and 0 in (a, b))],
             goals=["collapsed"], describe="two free networks: every relation reached by forking"),
        Spec("template", h_template, [{"cls": c, "platform": p, "template": t} for c in ("Address", "AddressAg") for p in ("ios", "nxos")
                                      for t in sorted(TEMPLATES) if not (c == "AddressAg" and p == "ios" and "ANY" in TEMPLATES[t])],
             goals=["collapsed", "refused"], describe="relation templates over one free base, all orders"),
        Spec("refuse", h_refuse, [{"case": c} for c in REFUSE_CASES],
             goals=["refused"], describe="TypeError for non-contiguous wildcards and foreign types"),
    ]
