"""C18 - Generated port/protocol ranges cover exactly the requested set."""
import itertools

from symx.core import V, Or_, And_, Not_, Iff_, Xor_
from symx import text as T
from oracle.packet import Pkt, port_pred
from oracle import reader as rd
from oracle import tables as tb
from .common import Spec, Claims

PROPERTY = "C18"
BOUNDS = ("request strings of 1..3 comma items (quick: 9 shapes; thorough: + range,number,range), each a symbolic number 1..65535 or a range a-b with "
          "symbolic a and width 0..2, any interleaving; source or destination side; templates {tcp, udp} x {no operator, eq, range} "
          "(+ flags/log/host fields that must survive); ports-per-line 0 (unlimited), 1, 2, 3; both range policies; both platforms; "
          "numbers (port_nr=True) and, for single ports, names.  Protocol ranges: 10 concrete request strings (netports' parser enumerates per value), template host and packet symbolic.")
ASSUMPTIONS = ["a ValueError (eq template with an a-b item under the range policy, NX-OS with more than one port per line, gt/lt "
               "templates) is a refusal and not judged", "neq templates are outside the property (one `neq p` per port is pinned by tests)"]

SHAPES = ["n", "r", "n,n", "n,r", "r,n", "r,r", "n,n,n", "n,r,n", "r,n,n"]
# four-item requests ("n,n,n,n", "n,n,r,n": 24 orders x adjacency patterns) were tried in the thorough tier and dropped: single
# structural shards exceeded the 900 s budget even when platform and policy were pinned; the thorough tier adds "r,n,r"
SHAPES_T = SHAPES + ["r,n,r"]
TEMPLATES = {
    "plain-tcp": ("permit tcp any any", "tcp", None),
    "fields-udp": ("deny udp host 10.1.1.1 10.2.0.0 0.0.0.255 log", "udp", None),
    "eq-src": ("permit tcp any eq 1 any", "tcp", ("src", "eq")),
    "eq-dst": ("permit tcp any any eq 1 ack", "tcp", ("dst", "eq")),
    "range-dst": ("permit tcp any any range 1 2", "tcp", ("dst", "range")),
    "range-src": ("permit udp any range 1 2 any", "udp", ("src", "range")),
    "other-side-port": ("permit tcp any eq 179 any", "tcp", ("src", "eq")),
}


def _request(ctx, shape):
    items, texts = [], []
    for k, it in enumerate(shape.split(",")):
        if it == "n":
            p = ctx.fresh(f"p{k}", 1, 65535)
            items.append((p, p))
            texts.append(T.num(p))
        else:
            a = ctx.fresh(f"p{k}", 1, 65533)
            w = ctx.pick(f"w{k}", [0, 1, 2])
            items.append((a, a + w))
            texts.append(T.num(a) + "-" + T.num(a + w))
    return items, T.join(texts, ",")


def h_ports(ctx):
    import cisco_acl
    shape = ctx.pick("shape", SHAPES if ctx.tier == "quick" else SHAPES_T)
    tname = ctx.pick("template", sorted(TEMPLATES))
    tmpl, proto, tport = TEMPLATES[tname]
    side = ctx.pick("side", ["src", "dst"])
    platform = ctx.pick("platform", ["ios", "nxos"])
    count = ctx.pick("count", [0, 1, 2, 3])
    policy = ctx.pick("policy", [True, False])
    items, req = _request(ctx, shape)
    if tport is not None and tport == (side, "range"):
        # a `range` template turns a chunk of two requested ports into `range p1 p2` (known finding): keep the
        # requested numbers within a window of 6 so that the library's own range expansion stays bounded
        lo = items[0][0]
        for a, b in items[1:]:
            ctx.assume(And_(V(a) >= V(lo) - 6, V(b) <= V(lo) + 6))
    pkt = Pkt(ctx)
    kw = dict(line=tmpl, platform=platform, port_nr=True, port_count=count, port_range=policy)
    kw["srcports" if side == "src" else "dstports"] = req
    try:
        lines = cisco_acl.range_ports(**kw)
    except ValueError:
        ctx.reach("refused")
        ctx.observe("outcome", "ValueError")
        return None
    ctx.reach("generated")
    ctx.observe("lines", list(lines))
    base = rd.read_ace(tmpl, platform)
    field = pkt.sport if side == "src" else pkt.dport
    requested = Or_([And_(V(field) >= V(a), V(field) <= V(b)) for a, b in items])
    cl = Claims(ctx)
    got = []
    limit = count if count else 10 ** 6
    for k, l in enumerate(lines):
        try:
            r = rd.read_ace(l, platform)
        except rd.Reject as e:
            ctx.observe("reject", str(e))
            cl(f"line[{k}]-valid-on-platform", True)
            continue
        rule = r["rule"]
        d = r["desc"]["sport" if side == "src" else "dport"]
        cl(f"line[{k}]-has-generated-port", d is None)
        if d is not None:
            got.append(rule.sport_p(pkt) if side == "src" else rule.dport_p(pkt))
            if d[0] == "eq":
                cl(f"line[{k}]-ports-per-line", len(d[1]) > limit)
            if not policy:
                cl(f"line[{k}]-policy-eq-only", d[0] != "eq")
            cl(f"line[{k}]-operator", d[0] not in ("eq", "range"))
        # every field but the generated one equals the template
        cl(f"line[{k}]-action", rule.action != base["rule"].action)
        cl(f"line[{k}]-proto", V(rule.proto) != V(base["rule"].proto))
        cl(f"line[{k}]-src", Xor_(rule.src_p(pkt), base["rule"].src_p(pkt)))
        cl(f"line[{k}]-dst", Xor_(rule.dst_p(pkt), base["rule"].dst_p(pkt)))
        other = (rule.dport_p(pkt), base["rule"].dport_p(pkt)) if side == "src" else (rule.sport_p(pkt), base["rule"].sport_p(pkt))
        cl(f"line[{k}]-other-side-port", Xor_(other[0], other[1]))
        cl(f"line[{k}]-options", list(rule.flags) + list(rule.logs) != list(base["rule"].flags) + list(base["rule"].logs))
        cl(f"line[{k}]-numerals", Not_(r["valid"]))
    cl("covers-exactly-the-request", Xor_(Or_(got), requested))
    cl.done()
    return None


PROTO_REQUESTS = ["1", "6", "1-2", "6,17", "88-89,1", "255", "100", "47,50-51", "2,1", "17,17"]


def h_protocols(ctx):
    """protocol requests are structural (netports' parser enumerates sets per value); the template's host address and the
    probe packet stay symbolic"""
    import cisco_acl
    req = ctx.pick("request", PROTO_REQUESTS)
    platform = ctx.pick("platform", ["ios", "nxos"])
    pnr = ctx.pick("protocol_nr", [True, False])
    s, v = T.fresh_quad(ctx, "a")
    tmpl = ctx.pick("template", ["permit ip any any", "deny ip host @ any log"]).replace("@", "@")
    if "@" in tmpl:
        tmpl = "deny ip host " + s + " any log"
    items = []
    for it in req.split(","):
        ab = it.split("-")
        items.append((int(ab[0]), int(ab[-1])))
    pkt = Pkt(ctx)
    try:
        lines = cisco_acl.range_protocols(protocols=req, line=tmpl, platform=platform, protocol_nr=pnr)
    except ValueError:
        ctx.reach("refused")
        ctx.observe("outcome", "ValueError")
        return None
    ctx.reach("generated")
    ctx.observe("lines", list(lines))
    base = rd.read_ace(tmpl, platform)
    requested = Or_([And_(V(pkt.proto) >= a, V(pkt.proto) <= b) for a, b in items])
    cl = Claims(ctx)
    got = []
    for k, l in enumerate(lines):
        try:
            r = rd.read_ace(l, platform)
        except rd.Reject as e:
            ctx.observe("reject", str(e))
            cl(f"line[{k}]-valid-on-platform", True)
            continue
        rule = r["rule"]
        got.append(V(pkt.proto) == V(rule.proto))
        cl(f"line[{k}]-proto-not-any", V(rule.proto) == 0)
        cl(f"line[{k}]-action", rule.action != base["rule"].action)
        cl(f"line[{k}]-src", Xor_(rule.src_p(pkt), base["rule"].src_p(pkt)))
        cl(f"line[{k}]-dst", Xor_(rule.dst_p(pkt), base["rule"].dst_p(pkt)))
        cl(f"line[{k}]-options", list(rule.logs) != list(base["rule"].logs))
        cl(f"line[{k}]-numerals", Not_(r["valid"]))
    cl("covers-exactly-the-request", Xor_(Or_(got), requested))
    cl.done()
    return None


def specs(tier, seed, concrete=False):
    shapes = SHAPES if tier == "quick" else SHAPES_T
    return [
        Spec("ports", h_ports, [dict({"shape": s, "template": t, "side": sd}, **extra) for s in shapes for t in sorted(TEMPLATES) for sd in ("src", "dst")
                                for extra in ([{}] if s in SHAPES else [{"platform": p, "policy": pol} for p in ("ios", "nxos") for pol in (True, False)])],
             goals=["generated", "refused"], describe="range_ports(): validity, limit, policy, template fields, exact cover"),
        Spec("protocols", h_protocols, [{"request": r} for r in PROTO_REQUESTS], goals=["generated"],
             describe="range_protocols()"),
    ]
