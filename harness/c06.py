"""C06 - Rendered text is a fixed point of the parser at every object level."""
import itertools

from symx.core import V, Or_, And_, Not_, Iff_, Xor_, SymInt, SymStr, SymBool
from symx import text as T
from symx.covering import covering_array
from . import acegen as G
from . import aclgen as AG
from .common import Spec, Claims, m2i, i2m, ALL, in_nets

PROPERTY = "C06"
BOUNDS = ("per class: Port (5 operators, names), Protocol (names / symbolic number), Option (flag/log token sets), Wildcard (12 masks), "
          "Address (17 forms x platform), AddressAg (native member spellings x platform, with sequence numbers), AddrGroup (1..3 "
          "members, numbered or not, indent 1/2/4), Remark (21 text shapes incl. punctuation next to spaces x sequence), Ace (the C01 covering array), AceGroup and "
          "Acl (relation templates of <=4 lines, numbered or not, grouped or not, indent 0/1/2/4, extended and standard), config "
          "functions acls()/addrgroups(); all numerals symbolic.  Strict one-step fixpoint text+data for text the library itself "
          "rendered; two-step text stability + unchanged meaning for foreign inputs.")
ASSUMPTIONS = ["remark text is drawn from a vocabulary of shapes (characters are not symbolic)"]


# ------------------------------------------------------------------ deep comparison of data() with symbolic leaves


def deep_eq(a, b):
    """a == b for nested data with symbolic leaves -> bool / z3 formula"""
    ta, tb = type(a), type(b)
    if ta in (SymInt, SymStr, SymBool) or tb in (SymInt, SymStr, SymBool):
        r = a == b
        return V(r) if type(r) is SymBool else bool(r)
    if isinstance(a, dict) and isinstance(b, dict):
        ka, kb = list(a.keys()), list(b.keys())
        if ka != kb:
            return False
        return And_([deep_eq(a[k], b[k]) for k in ka])
    if isinstance(a, (list, tuple)) and isinstance(b, (list, tuple)):
        if len(a) != len(b):
            return False
        return And_([deep_eq(x, y) for x, y in zip(a, b)])
    if a.__class__.__name__ == "IPv4Network" and b.__class__.__name__ == "IPv4Network":
        return And_(V(T.ival(a.network_address)) == V(T.ival(b.network_address)), a.prefixlen == b.prefixlen)
    if a is None or b is None:
        return a is b
    if ta is not tb and not (ta in (int, bool) and tb in (int, bool)):
        return False
    return a == b


def fixpoint(ctx, cl, make, text, tag, foreign=False):
    """make(text) -> object.  Native input: the rendered text re-parses to identical text and data (strict, one step).
    Foreign spelling (e.g. prefix notation on IOS): the text is stable from the first re-parse on (two steps)."""
    o1 = make(text)
    t1 = o1.line
    ctx.observe(tag + "t1", t1)
    o2 = make(t1)
    if not foreign:
        cl(tag + "text-fixpoint", Not_(o2.line == t1))
        cl(tag + "data-fixpoint", Not_(deep_eq(o2.data(), o1.data())))
    else:
        t2 = o2.line
        o3 = make(t2)
        cl(tag + "text-stable-from-first-reparse", Not_(o3.line == t2))
        cl(tag + "data-stable-from-first-reparse", Not_(deep_eq(o3.data(), o2.data())))
    return o1, o2


def _foreign_addr(form, platform):
    """spellings that are accepted but are not the platform's native syntax"""
    return platform == "ios" and form.startswith("prefix")


# ------------------------------------------------------------------ leaf objects


PORT_LINES = ["eq1", "eq2", "neq1", "gt", "lt", "range", "eqname", "rangename", "none"]


def h_port(ctx):
    from cisco_acl import Port
    platform = ctx.pick("platform", ["ios", "nxos"])
    form = ctx.pick("form", PORT_LINES)
    port_nr = ctx.pick("port_nr", [True, False])
    proto = ctx.pick("proto", ["tcp", "udp"])
    if platform == "nxos" and form == "eq2":
        return None
    if form in ("neq1", "gt", "lt") and ctx.symbolic:
        from symx import shims
        shims.PORT_MAX = 8
        ctx.skip_validation()         # data() carries the materialised port list of the shrunk universe
    text, _, _ = G._port(ctx, form, "o", proto, port_nr, 8)
    cl = Claims(ctx)
    fixpoint(ctx, cl, lambda t: Port(t, platform=platform, protocol=proto, port_nr=port_nr), text, "")
    cl.done()
    ctx.reach("port")
    return None


def h_protocol(ctx):
    from cisco_acl import Protocol
    platform = ctx.pick("platform", ["ios", "nxos"])
    pnr = ctx.pick("protocol_nr", [True, False])
    form = ctx.pick("form", ["ip", "tcp", "icmp", "ospf", "ahp", "nsym"])
    text = T.num(ctx.fresh("n", 0, 255)) if form == "nsym" else form
    cl = Claims(ctx)
    fixpoint(ctx, cl, lambda t: Protocol(t, platform=platform, protocol_nr=pnr), text, "")
    cl.done()
    ctx.reach("protocol")
    return None


def h_option(ctx):
    from cisco_acl import Option
    text = ctx.pick("text", ["", "log", "ack", "ack log", "log-input", "syn ack  log", "urg fin psh rst", "established", "dscp ef log"])
    platform = ctx.pick("platform", ["ios", "nxos"])
    cl = Claims(ctx)
    o1, o2 = fixpoint(ctx, cl, lambda t: Option(t, platform=platform), text, "")
    cl.done()
    ctx.reach("option")
    return None


WILD_MASKS = ["0.0.0.0", "0.0.0.255", "0.0.1.3", "128.0.0.1", "255.255.255.255", "0.0.0.1", "127.255.255.255", "0.255.0.255",
              "0.0.85.0", "255.0.0.0", "0.0.255.254", "1.1.1.1"]


def h_wildcard(ctx):
    from cisco_acl.wildcard import Wildcard
    mask = ctx.pick("mask", WILD_MASKS)
    s, v = T.fresh_quad(ctx, "a")
    cl = Claims(ctx)
    fixpoint(ctx, cl, lambda t: Wildcard(t, max_ncwb=30), s + " " + mask, "")
    cl.done()
    ctx.reach("wildcard")
    return None


def h_address(ctx):
    from cisco_acl import Address
    platform = ctx.pick("platform", ["ios", "nxos"])
    form = ctx.pick("form", G.ADDR_FORMS + ["bare"])
    x = ctx.fresh("x", 0, ALL)
    if form == "bare":
        s, v = T.fresh_quad(ctx, "a")
        text, pred = s, (lambda f: V(f) == V(v))
    else:
        text, pred, _ = G._addr(ctx, form, "a", platform)
    cl = Claims(ctx)
    make = lambda t: Address(t, platform=platform, max_ncwb=30)
    o1, o2 = fixpoint(ctx, cl, make, text, "", foreign=_foreign_addr(form, platform))
    if pred is not None:
        # meaning kept by parse -> render -> parse (also for foreign spellings), text stable from the first re-parse on
        want = pred(x) if callable(pred) else pred
        cl("meaning-parse", Xor_(in_nets(x, o1.ipnets()), want))
        cl("meaning-reparse", Xor_(in_nets(x, o2.ipnets()), want))
    cl.done()
    ctx.reach("address")
    return None


AG_FORMS = {"ios": ["host", "subnet:24", "subnet:31", "subnet:8", "prefix:24", "prefix:32", "group-object"],
            "nxos": ["host", "prefix:24", "prefix:31", "prefix:0", "prefix:32", "wild:0.0.0.255", "wild:0.0.1.3", "wild:0.0.0.0"]}


LAST_SEQ = [0]


def _ag_member(ctx, platform, form, name, seq):
    sq = ctx.fresh(name + "seq", 1, 4294967295) if seq else 0
    LAST_SEQ[0] = sq
    pre = (T.num(sq) + " ") if seq else ""
    if form == "group-object":
        return pre + "group-object INNER"
    s, v = T.fresh_quad(ctx, name)
    if form == "host":
        return pre + "host " + s
    kind, arg = form.split(":")
    if kind == "wild":
        return pre + s + " " + arg
    ln = int(arg)
    hm = (1 << (32 - ln)) - 1
    ctx.assume((V(v) & hm) == 0)
    if kind == "subnet":
        return pre + s + " " + i2m(ALL ^ hm)
    return pre + s + "/" + arg


def h_address_ag(ctx):
    from cisco_acl import AddressAg
    platform = ctx.pick("platform", ["ios", "nxos"])
    form = ctx.pick("form", AG_FORMS[platform])
    seq = ctx.pick("seq", [False, True]) if platform == "nxos" else False
    text = _ag_member(ctx, platform, form, "m", seq)
    sq = LAST_SEQ[0]
    cl = Claims(ctx)
    o1, o2 = fixpoint(ctx, cl, lambda t: AddressAg(t, platform=platform, max_ncwb=30), text, "")
    cl("sequence-survives", V(o1.sequence) != V(sq))
    cl.done()
    ctx.reach("address_ag")
    return None


def h_addr_group(ctx):
    from cisco_acl import AddrGroup
    platform = ctx.pick("platform", ["ios", "nxos"])
    forms = ctx.pick("members", [[0], [0, 1], [1, 2, 0], [3, 4], [2, 2]])
    seq = ctx.pick("seq", [False, True]) if platform == "nxos" else False
    indent = ctx.pick("indent", [" ", "  ", "    "])
    head = "object-group network GRP" if platform == "ios" else "object-group ip address GRP"
    txt = head
    fl = [f for f in AG_FORMS[platform] if f != "group-object"]
    seqs = []
    for k, i in enumerate(forms):
        txt = txt + "\n" + indent + _ag_member(ctx, platform, fl[i % len(fl)], f"m{k}_", seq)
        seqs.append(LAST_SEQ[0])
    cl = Claims(ctx)
    o1, o2 = fixpoint(ctx, cl, lambda t: AddrGroup(t, platform=platform, indent=indent), txt, "")
    cl("member-count", len(o1.items) != len(forms))
    if len(o1.items) == len(forms):
        for k, it in enumerate(o1.items):
            cl(f"member-sequence-survives[{k}]", V(it.sequence) != V(seqs[k]))
    cl("indent-kept", o2.indent != indent)
    cl("name-kept", o2.name != "GRP")
    cl.done()
    ctx.reach("addr_group")
    return None


REMARK_TEXTS = ["a ? b", "is it used ?", "? todo check", "why?", "x ! y", "# hash ; semi", "(paren) [bracket]", "text", "10 leading digits", "permit ip any any", "deny inside text", "= heading, with comma", "a  b   c",
                "trailing.punct!", "remark remark", "x", "99", "tab\there", "=== C-1 ===", "any host 10.0.0.1", "ünicode"]


def h_remark(ctx):
    from cisco_acl import Remark
    text = ctx.pick("text", REMARK_TEXTS)
    platform = ctx.pick("platform", ["ios", "nxos"])
    seq = ctx.pick("seq", [False, True])
    sq = ctx.fresh("seq", 1, 4294967295) if seq else 0
    line = (T.num(sq) + " " if seq else "") + "remark " + text
    cl = Claims(ctx)
    o1, o2 = fixpoint(ctx, cl, lambda t: Remark(t, platform=platform), line, "")
    cl("sequence-survives", V(o1.sequence) != V(sq))
    cl("text-kept", o1.text != " ".join(text.split()))
    cl.done()
    ctx.reach("remark")
    return None


# ------------------------------------------------------------------ ACE / ACE group / ACL / config functions


def h_ace(ctx):
    from cisco_acl import Ace
    from oracle.packet import Pkt
    row = {k: ctx.pick(k, G.DIMS[k]) for k in sorted(G.DIMS)}
    sk = G.build_ace(ctx, row)
    if sk.umax != 65535:
        ctx.skip_validation()
    kw = dict(platform=row["platform"], version=row["version"], port_nr=row["port_nr"], protocol_nr=row["protocol_nr"])
    cl = Claims(ctx)
    foreign = _foreign_addr(row["sa"], row["platform"]) or _foreign_addr(row["da"], row["platform"])
    o1, o2 = fixpoint(ctx, cl, lambda t: Ace(t, **kw), sk.text, "", foreign=foreign)
    o3 = Ace(o2.line, **kw)
    cl("text-stable-from-first-reparse", Not_(o3.line == o2.line))
    cl.done()
    ctx.reach("ace")
    return None


NAMED_CFG = [(p, v, pr) for p in ("ios", "nxos") for v in ("0", "15.2", "16.9", "9.3") for pr in ("tcp", "udp")]


def h_named_ports(ctx):
    """every keyword of the platform/version table as source and destination port of an ACE (by name and by number):
    the rendered ACE must re-parse to the same text and data (the dst-port/option splitter uses its own name list)"""
    from cisco_acl import Ace
    from cisco_acl.port_name import PortName
    platform, version, proto = ctx.pick("cfg", NAMED_CFG)
    table = PortName(protocol=proto, platform=platform, version=version).names()
    side = ctx.pick("side", ["src", "dst"])
    op = ctx.pick("op", ["eq", "range"])
    opt = ctx.pick("opt", ["", "log"])
    kw = dict(platform=platform, version=version, port_nr=False)
    cl = Claims(ctx)
    n = 0
    for name, nr in sorted(table.items()):
        for spelled in (name, str(nr)):
            port = f"eq {spelled}" if op == "eq" else f"range {spelled} 65000"
            line = f"permit {proto} any {port} any" if side == "src" else f"permit {proto} any any {port}"
            if opt:
                line += " " + opt
            o1 = Ace(line, **kw)
            t1 = o1.line
            try:
                o2 = Ace(t1, **kw)
            except ValueError:
                cl(f"rendered-ace-accepted[{name},{spelled}]", True)
                continue
            n += 1
            cl(f"text-fixpoint[{name},{spelled}]", o2.line != t1)
            cl(f"data-fixpoint[{name},{spelled}]", Not_(deep_eq(o2.data(), o1.data())))
    ctx.observe("n", n)
    cl.done()
    ctx.reach("named")
    return None


LONG_LINES = [
    # (class, platform, text): <= 100 characters as written, longer once ports are rendered by name / hosts by keyword
    ("Ace", "ios", "10 permit udp 10.100.100.0 0.0.0.255 eq 4500 500 123 10.200.200.0 0.0.0.255 eq 4500 500 161 162 log"),
    ("Ace", "ios", "4294967290 permit tcp object-group SOURCE-SERVERS-DC1 eq 15001 15002 object-group CLIENTS-DC2 eq 135"),
    ("Ace", "ios", "permit tcp 10.111.112.0 0.0.0.255 eq 5631 1494 2748 1352 10.121.122.0 0.0.0.255 eq 5631 1494 3020 ack"),
    ("Ace", "nxos", "4294967295 permit udp 100.100.100.100/32 range 4500 5632 200.200.200.200/32 range 1645 1646 log"),
    ("Port", "ios", "eq 7 9 13 19 20 21 22 23 25 37 43 49 53 70 79 80 101 109 110 111 113 119 135 139 143 179 194 389"),
    ("Acl", "ios", "ip access-list extended A1\n  remark " + "x" * 90 + "\n  10 permit udp 10.100.100.0 0.0.0.255 eq 4500 500 123 10.200.200.0 0.0.0.255 eq 4500 500 161 162 log\n  deny ip any any"),
    ("AceGroup", "ios", "permit udp 10.100.100.0 0.0.0.255 eq 4500 500 123 10.200.200.0 0.0.0.255 eq 4500 500 161 162 log\ndeny ip any any"),
    ("Remark", "ios", "remark " + "long text " * 9),
]


def h_long(ctx):
    """lines close to 100 characters whose rendering is longer than the input (numbers -> names, /32 -> host): what the library
    renders must be read back by the library unchanged"""
    import cisco_acl
    k = ctx.pick("line", list(range(len(LONG_LINES))))
    cls, platform, text = LONG_LINES[k]
    port_nr = ctx.pick("port_nr", [False, True])
    K = getattr(cisco_acl, cls)
    kw = dict(platform=platform)
    if cls in ("Ace", "Acl", "AceGroup", "Port"):
        kw["port_nr"] = port_nr
    if cls == "Port":
        kw["protocol"] = "tcp"
    o1 = K(text, **kw)
    t1 = o1.line
    ctx.observe("t1", t1)
    ctx.observe("len", [len(l) for l in t1.split("\n")])
    n_in = len([l for l in text.split("\n")])
    cl = Claims(ctx)
    cl("no-line-lost-at-first-parse", len(t1.split("\n")) != n_in)
    try:
        o2 = K(t1, **kw)
    except ValueError:
        ctx.observe("reparse", "ValueError")
        cl("rendered-text-accepted", True)
        cl.done()
        return None
    cl("text-fixpoint", o2.line != t1)
    cl("data-fixpoint", Not_(deep_eq(o2.data(), o1.data())))
    cl.done()
    ctx.reach("long")
    return None


def _acl_inputs(ctx, indents=("", " ", "  ", "    ")):
    name, sel = ctx.pick("acl", ACLS)
    platform = ctx.pick("platform", ["ios", "nxos"])
    numbered = ctx.pick("numbered", [False, True])
    indent = ctx.pick("indent", list(indents))
    w = AG.World(ctx)
    specs = [AG.TEMPLATES[name][i] for i in sel]
    if AG.ios_only(specs):
        platform = "ios"                    # multi-port entries exist on IOS only
    s0 = ctx.fresh("s0", 1, 4000000000) if numbered else 0
    seqs = [s0 + 7 * i for i in range(len(specs))] if numbered else None
    return w, specs, platform, seqs, indent, name


def h_acl(ctx):
    from cisco_acl import Acl
    w, specs, platform, seqs, indent, name = _acl_inputs(ctx)
    gb = ctx.pick("group_by", ["", "= "]) if name == "mixed" else ""
    txt = AG.acl_text(w, specs, platform, seqs=seqs, indent=indent)
    kw = dict(platform=platform, group_by=gb, indent=indent, port_nr=True)
    cl = Claims(ctx)
    o1, o2 = fixpoint(ctx, cl, lambda t: Acl(t, **kw), txt, "")
    cl("name-kept", o2.name != "A1")
    cl("type-kept", o2.type != "extended")
    body = [l.split() for l in o1.line.split("\n")[1:]]
    cl("item-count", len(body) != len(specs))
    if len(body) == len(specs):
        for k, toks in enumerate(body):
            if seqs is None:
                cl(f"no-number[{k}]", toks[0].isdigit())
            else:
                cl(f"sequence-survives[{k}]", Not_(toks[0] == T.num(seqs[k])))
    cl("indent-kept", not all(l.startswith(indent) and not l[len(indent):].startswith(" ") for l in _raw_lines(o1.line)[1:]))
    cl.done()
    ctx.reach("acl")
    return None


def _raw_lines(text):
    """lines of a rendered text with their leading whitespace (dual mode)"""
    out = []
    for l in text.split("\n"):
        out.append(l if type(l) is str else l)
    return [_lead(l) for l in out]


class _lead:
    """leading-whitespace view of a str / SymStr line"""
    def __init__(self, l):
        self.first = l if type(l) is str else (l.parts[0] if type(l.parts[0]) is str else "")

    def startswith(self, p):
        return self.first.startswith(p)

    def __getitem__(self, sl):
        return self.first[sl]


def h_ace_group(ctx):
    from cisco_acl import AceGroup
    w, specs, platform, seqs, indent, name = _acl_inputs(ctx, ("  ",))
    txt = T.join([AG.line_text(w, s, platform, None if seqs is None else seqs[i]) for i, s in enumerate(specs)], "\n")
    cl = Claims(ctx)
    o1, o2 = fixpoint(ctx, cl, lambda t: AceGroup(t, platform=platform, port_nr=True), txt, "")
    cl("item-count", len(o1.items) != len(specs))
    if len(o1.items) == len(specs):
        for k, it in enumerate(o1.items):
            cl(f"sequence-survives[{k}]", V(it.sequence) != V(0 if seqs is None else seqs[k]))
    cl.done()
    ctx.reach("ace_group")
    return None


STD_LINES = [["host"], ["bare", "wild"], ["any"], ["wild", "remark", "host"]]


def h_standard_acl(ctx):
    from cisco_acl import Acl
    forms = ctx.pick("lines", STD_LINES)
    numbered = ctx.pick("numbered", [False, True])
    txt = "ip access-list standard STD"
    for k, f in enumerate(forms):
        s, v = T.fresh_quad(ctx, f"a{k}_")
        body = {"host": "permit host " + s, "bare": "deny " + s, "wild": "permit " + s + " 0.0.0.255", "any": "deny any log",
                "remark": "remark text"}[f]
        if numbered:
            body = T.num(ctx.fresh(f"s{k}", 1, 4294967295)) + " " + body
        txt = txt + "\n  " + body
    cl = Claims(ctx)
    o1, o2 = fixpoint(ctx, cl, lambda t: Acl(t, platform="ios"), txt, "")
    cl("type-kept", o2.type != "standard")
    cl("name-kept", o2.name != "STD")
    cl.done()
    ctx.reach("standard")
    return None


def h_config(ctx):
    """config-level functions: acls(config) -> rendered config -> acls() again"""
    import cisco_acl
    w, specs, platform, seqs, indent, name = _acl_inputs(ctx, (" ", "  ", "    "))
    txt = AG.acl_text(w, specs, platform, seqs=seqs, indent=indent)
    ghead = "object-group network G1" if platform == "ios" else "object-group ip address G1"
    members = ("host " + w.txt["Y"], w.txt["X"] + (" 255.255.255.0" if platform == "ios" else "/24"))
    ctx.assume((V(w.val["X"]) & 255) == 0)
    gtxt = ghead + "\n" + indent + members[0] + "\n" + indent + members[1]
    cfg = gtxt + "\n" + txt + "\n"
    a1 = cisco_acl.acls(cfg, platform=platform, port_nr=True)
    g1 = cisco_acl.addrgroups(cfg, platform=platform)
    cl = Claims(ctx)
    cl("one-acl", len(a1) != 1)
    cl("one-group", len(g1) != 1)
    if len(a1) == 1 and len(g1) == 1:
        cfg2 = g1[0].line + "\n" + a1[0].line + "\n"
        ctx.observe("cfg2", cfg2)
        a2 = cisco_acl.acls(cfg2, platform=platform, port_nr=True)
        g2 = cisco_acl.addrgroups(cfg2, platform=platform)
        cl("acl-text-fixpoint", Or_(len(a2) != 1, Not_(a2[0].line == a1[0].line)) if len(a2) == 1 else True)
        cl("group-text-fixpoint", Or_(len(g2) != 1, Not_(g2[0].line == g1[0].line)) if len(g2) == 1 else True)
        if len(a2) == 1:
            cl("acl-data-fixpoint", Not_(deep_eq(a2[0].data(), a1[0].data())))
        if len(g2) == 1:
            cl("group-data-fixpoint", Not_(deep_eq(g2[0].data(), g1[0].data())))
    cl.done()
    ctx.reach("config")
    return None


ACLS = []


def specs(tier, seed, concrete=False):
    global ACLS
    from . import c04
    ACLS = [[n, s] for n, s in c04._selections(tier, seed)][::(3 if tier == "quick" else 1)]
    rows, info = ([], {}) if concrete else covering_array(G.DIMS, t=2 if tier == "quick" else 3, seed=seed + 1, valid=G.row_valid,
                                                           candidates=30 if tier == "quick" else 12)
    return [
        Spec("port", h_port, [{"form": f} for f in PORT_LINES], goals=["port"], describe="Port"),
        Spec("protocol", h_protocol, [{"form": f} for f in ["ip", "tcp", "icmp", "ospf", "ahp", "nsym"]], goals=["protocol"], describe="Protocol"),
        Spec("option", h_option, [{}], goals=["option"], describe="Option"),
        Spec("wildcard", h_wildcard, [{"mask": m} for m in WILD_MASKS], goals=["wildcard"], describe="Wildcard"),
        Spec("address", h_address, [{"form": f} for f in G.ADDR_FORMS + ["bare"]], goals=["address"], describe="Address, all forms x platforms"),
        Spec("address_ag", h_address_ag, [{"platform": p} for p in ("ios", "nxos")], goals=["address_ag"], describe="AddressAg"),
        Spec("addr_group", h_addr_group, [{"platform": p, "indent": i} for p in ("ios", "nxos") for i in (" ", "  ", "    ")], goals=["addr_group"], describe="AddrGroup"),
        Spec("remark", h_remark, [{"platform": p} for p in ("ios", "nxos")], goals=["remark"], describe="Remark text shapes"),
        Spec("ace", h_ace, rows, goals=["ace"], describe=f"Ace over a covering array {info}"),
        Spec("acl", h_acl, [{"acl": a, "indent": i} for a in ACLS for i in ("", " ", "  ", "    ")], goals=["acl"], describe="Acl from relation templates"),
        Spec("ace_group", h_ace_group, [{"acl": a} for a in ACLS], goals=["ace_group"], describe="AceGroup"),
        Spec("standard_acl", h_standard_acl, [{"lines": l} for l in STD_LINES], goals=["standard"], describe="standard ACLs"),
        Spec("named_ports", h_named_ports, [{"cfg": list(c), "side": sd} for c in NAMED_CFG for sd in ("src", "dst")], goals=["named"],
             describe="every port keyword of every table inside an ACE, by name and by number"),
        Spec("long", h_long, [{"line": k} for k in range(len(LONG_LINES))], goals=["long"],
             describe="lines near 100 characters whose rendering is longer than the input"),
        Spec("config", h_config, [{"acl": a, "platform": p} for a in ACLS[::2] for p in ("ios", "nxos")], goals=["config"], describe="acls()/addrgroups()"),
    ]
