"""C03 - Shadow detection is sound: a reported shadow is really covered."""
from symx.core import V, Or_, And_, Not_, Iff_, Xor_
from oracle.packet import Pkt, Rule
from oracle import inclusion as inc
from . import pairgen as P
from .common import Spec, Claims

PROPERTY = "C03"
BOUNDS = ("ordered pairs (top, bottom) of ACE skeletons from a 2-way (quick) / 3-way (thorough) covering array over: platform, "
          "action, protocol {ip,tcp,udp,icmp}, 12 address forms per side and direction (any, host, contiguous and "
          "non-contiguous wildcards, prefix, all-ones, address groups with 1-2 members incl. non-contiguous members, unresolved "
          "group), 7 port forms per side and direction (none, eq x1/x2, range, gt, lt, neq) incl. expressions denoting no port "
          "(lt 1, gt max), 4 flag sets, log; each row doubled by a same-action/covering-protocol twin; all 5 skip lists per pair. "
          "All bases, member bases, port operands and the probe packet are symbolic; when a pair uses neq/gt/lt (at most 2 such fields per pair) the port universe is shrunk to 1..5 and every port operand of the pair lives in it; range operands ordered, width <= 2.")
ASSUMPTIONS = ["several TCP flag keywords match a packet carrying ANY of them", "log keywords do not change the packet set",
               "an address group without attached members matches nothing as top and everything as bottom (strictest reading)"]


def lemmas():
    return inc.lemmas()


replay_variants = P.replay_variants


def _rule(sk, as_top):
    src = sk.src_p if sk.src_p is not None else (False if as_top else True)
    dst = sk.dst_p if sk.dst_p is not None else (False if as_top else True)
    return Rule(sk.action, sk.proto, src, dst, sk.sport_p, sk.dport_p, sk.flags)


def h_pair(ctx):
    ds = P.dims(True)
    row = {k: ctx.pick(k, ds[k]) for k in sorted(ds)}
    top, bot = P.build_pair(ctx, row)
    if bot.umax != 65535:
        ctx.skip_validation()
    pkt = Pkt(ctx, port_max=bot.umax)
    t, b = P.make_aces(top, bot, row["platform"])
    ctx.observe("top", t.line)
    ctx.observe("bottom", b.line)
    rt, rb = _rule(top, True), _rule(bot, False)
    escapes = And_(rb.matches(pkt), Not_(rt.matches(pkt)))
    gots = {}
    cl = Claims(ctx)
    for skip in P.SKIPS:
        got = b.shadow_of(t, skip=list(skip) or None)
        gots[tuple(skip)] = got
        ctx.observe("got:" + ",".join(skip), got)
        if got:
            ctx.reach("true")
            cl("sound[" + ",".join(skip) + "]:same-action", top.action != bot.action)
            cl("sound[" + ",".join(skip) + "]:covered", escapes)
        else:
            ctx.reach("false")
    # adding skip options can only turn answers from true to false
    for small in P.SKIPS:
        for big in P.SKIPS:
            if set(small) < set(big):
                cl("monotone[" + ",".join(small) + "<" + ",".join(big) + "]", gots[tuple(big)] and not gots[tuple(small)])
    cl.done()
    return None


def specs(tier, seed, concrete=False):
    rows, info = P.rows(2 if tier == "quick" else 3, seed, groups=True, candidates=30 if tier == "quick" else 10)
    return [Spec("pair", h_pair, rows, goals=["true", "false"], max_paths=6000,
                 describe=f"Ace.shadow_of(top, skip) vs packet-level containment, covering array {info} + twins")]
