"""C03 - Shadow detection is sound: a reported shadow is really covered."""
from symx.core import V, Or_, And_, Not_, Iff_, Xor_
from oracle.packet import Pkt, Rule
from oracle import inclusion as inc
from . import pairgen as P
from .common import Spec, Claims

PROPERTY = "C03"
BOUNDS = ("ordered pairs (top, bottom) of ACE skeletons from a 2-way (quick) / 3-way (thorough) covering array over: platform, "
          "action, protocol {ip,tcp,udp,icmp}, 12 address forms per side and direction (any, host, contiguous and "
          "non-contiguous wildcards, prefix, all-ones, address groups with 1-2 members incl. non-contiguous members, unresolved "
          "group), 7 port forms per side and direction (none, eq x1/x2, range, gt, lt, neq) incl. expressions denoting no port "
          "(lt 1, gt max), 4 flag sets, log; each row doubled by a same-action/covering-protocol twin; all 5 skip lists per pair. "
          "All bases, member bases, port operands and the probe packet are symbolic; when a pair uses neq/gt/lt (at most 2 such fields per pair) the port universe is shrunk to 1..5 and every port operand of the pair lives in it; range operands ordered, width <= 2.")
ASSUMPTIONS = ["several TCP flag keywords match a packet carrying ANY of them", "log keywords do not change the packet set",
               "an address group without attached members matches nothing as top and everything as bottom (strictest reading)"]


def lemmas():
    return inc.lemmas()


replay_variants = P.replay_variants


def _rule(sk, as_top):
    src = sk.src_p if sk.src_p is not None else (False if as_top else True)
    dst = sk.dst_p if sk.dst_p is not None else (False if as_top else True)
    return Rule(sk.action, sk.proto, src, dst, sk.sport_p, sk.dport_p, sk.flags)


def h_pair(ctx):
    ds = P.dims(True)
    row = {k: ctx.pick(k, ds[k]) for k in sorted(ds)}
    top, bot = P.build_pair(ctx, row)
    if bot.umax != 65535:
        ctx.skip_validation()
    pkt = Pkt(ctx, port_max=bot.umax)
    t, b = P.make_aces(top, bot, row["platform"])
    ctx.observe("top", t.line)
    ctx.observe("bottom", b.line)
    rt, rb = _rule(top, True), _rule(bot, False)
    escapes = And_(rb.matches(pkt), Not_(rt.matches(pkt)))
    gots = {}
    cl = Claims(ctx)
    for skip in P.SKIPS:
        got = b.shadow_of(t, skip=list(skip) or None)
        gots[tuple(skip)] = got
        ctx.observe("got:" + ",".join(skip), got)
        if got:
            ctx.reach("true")
            cl("sound[" + ",".join(skip) + "]:same-action", top.action != bot.action)
            cl("sound[" + ",".join(skip) + "]:covered", escapes)
        else:
            ctx.reach("false")
    # adding skip options can only turn answers from true to false
    for small in P.SKIPS:
        for big in P.SKIPS:
            if set(small) < set(big):
                cl("monotone[" + ",".join(small) + "<" + ",".join(big) + "]", gots[tuple(big)] and not gots[tuple(small)])
    cl.done()
    return None


DENSE_TOPS = ["any", "wild:0.0.84.0", "wild:0.0.21.0", "wild:0.0.255.255", "wild:0.0.85.0", "wild:0.0.80.0"]
DENSE_BOTS = ["wild:0.0.85.0", "wild:0.0.84.0", "wild:0.0.170.0"]


def h_dense(ctx):
    """wildcards with 3..4 non-contiguous bits (8..16 networks) on one address; top and bottom share the base or not"""
    from cisco_acl import Ace
    from symx import text as T
    from oracle.packet import addr_pred
    from .common import m2i
    platform = ctx.pick("platform", ["ios", "nxos"])
    tf, bf = ctx.pick("top", DENSE_TOPS), ctx.pick("bot", DENSE_BOTS)
    shared = ctx.pick("shared", [True, False])
    side = ctx.pick("side", ["src", "dst"])
    bs, bv = T.fresh_quad(ctx, "b")
    ts, tv = (bs, bv) if shared else T.fresh_quad(ctx, "t")
    x = ctx.fresh("x", 0, 0xFFFFFFFF)

    def addr(form, s):
        return "any" if form == "any" else s + " " + form[5:]
    ta, ba = addr(tf, ts), addr(bf, bs)
    tl = "permit ip " + (ta + " any" if side == "src" else "any " + ta)
    bl = "permit ip " + (ba + " any" if side == "src" else "any " + ba)
    t, b = Ace(tl, platform=platform, max_ncwb=30), Ace(bl, platform=platform, max_ncwb=30)
    got = b.shadow_of(t)
    ctx.observe("top", t.line)
    ctx.observe("bottom", b.line)
    ctx.observe("got", got)
    ctx.reach("true" if got else "false")
    in_b = addr_pred(x, bv, m2i(bf[5:]))
    in_t = True if tf == "any" else addr_pred(x, tv, m2i(tf[5:]))
    ctx.claim("sound-dense", And_(got, in_b, Not_(in_t)))
    ctx.claim("exact-dense", Xor_(got, inc.wild_subset(bv, m2i(bf[5:]), tv if tf != "any" else 0, 0xFFFFFFFF if tf == "any" else m2i(tf[5:]))))
    return None


def specs(tier, seed, concrete=False):
    rows, info = ([], {}) if concrete else P.rows(2 if tier == "quick" else 3, seed, groups=True, candidates=30 if tier == "quick" else 10)
    return [Spec("pair", h_pair, rows, goals=["true", "false"], max_paths=6000,
                 describe=f"Ace.shadow_of(top, skip) vs packet-level containment, covering array {info} + twins"),
            Spec("dense", h_dense, [{"top": t, "bot": b, "shared": s} for t in DENSE_TOPS for b in DENSE_BOTS for s in (True, False)],
                 goals=["true", "false"], max_paths=6000, describe="wildcards with 3-4 stray bits (8-16 networks each)")]
