"""C11 - Shadow answers are exact on group-free entries; the ACL report follows its spec."""
from symx.core import V, Or_, And_, Not_, Iff_, Xor_
from oracle import inclusion as inc
from . import pairgen as P
from .common import Spec, Claims

PROPERTY = "C11"
BOUNDS = ("group-free ordered pairs (top, bottom): every field on its own with ALL value combinations + 2-way (quick) / 3-way "
          "(thorough) covering array across fields with twins (same generator as C03, without address groups); port sets "
          "non-empty (assumed); all 5 skip lists per pair; bases and port operands symbolic, neq/gt/lt in a port universe shrunk "
          "to 1..5 (closed world).  ACL-level report: see C04's harnesses `report` (shared), ACLs of <=4 (quick) / 5 (thorough) lines.")
ASSUMPTIONS = ["set inclusion is expressed in closed form: wildcard sets by the lemma-backed mask/base formula, port sets by "
               "evaluation at the critical points of the operands (lemma per operator pair, re-proved every run)",
               "several TCP flag keywords match a packet carrying ANY of them; log keywords do not matter",
               "a top range never covers the whole port universe (width <= 2)"]

replay_variants = P.replay_variants


def lemmas():
    return inc.lemmas() + P.port_lemmas()


def _nonempty(ctx, sk):
    for d in (sk.sport, sk.dport):
        if d is None:
            continue
        op, ops = d
        if op == "gt":
            ctx.assume(V(ops[0]) <= sk.umax - 1)
        if op == "lt":
            ctx.assume(V(ops[0]) >= 2)


def h_pair(ctx):
    ds = P.dims(False)
    row = {k: ctx.pick(k, ds[k]) for k in sorted(ds)}
    top, bot = P.build_pair(ctx, row)
    if bot.umax != 65535:
        ctx.skip_validation()
    _nonempty(ctx, top)
    _nonempty(ctx, bot)
    t, b = P.make_aces(top, bot, row["platform"])
    ctx.observe("top", t.line)
    ctx.observe("bottom", b.line)
    got0 = b.shadow_of(t)
    ctx.observe("got", got0)
    ctx.reach("true" if got0 else "false")
    want = And_(top.action == bot.action, P.inclusion(bot, top))
    cl = Claims(ctx)
    cl("exact", Xor_(got0, want))
    nc = any(P.noncontig(d) for d in (top.src, top.dst, bot.src, bot.dst))
    for skip in P.SKIPS[1:]:
        got = b.shadow_of(t, skip=list(skip))
        ctx.observe("got:" + ",".join(skip), got)
        involved = "nc_wildcard" in skip and nc
        cl("skip[" + ",".join(skip) + "]", Xor_(got, And_(got0, not involved)))
        if involved:
            ctx.reach("skipped")
    cl.done()
    return None


def specs(tier, seed, concrete=False):
    from . import c04
    report = [x for x in c04.specs(tier, seed, concrete) if x.name == "report"]
    rows, info = ([], {}) if concrete else P.rows(2 if tier == "quick" else 3, seed, groups=False, candidates=30 if tier == "quick" else 10)
    return [Spec("pair", h_pair, rows, goals=["true", "false", "skipped"], max_paths=6000,
                 describe=f"Ace.shadow_of exactness + skip semantics on group-free pairs, covering array {info} + twins")] + report
