"""C02 - IOS <-> NX-OS conversion changes spelling only, never the ACL's meaning."""
from symx.core import V, Or_, And_, Not_, Iff_, Xor_
from symx import text as T
from symx.covering import covering_array
from oracle.packet import Pkt, decision, ALL
from oracle import reader as rd
from . import acegen as G
from . import aclgen as AG
from .common import Spec, Claims, in_nets, m2i, i2m
from .c06 import AG_FORMS, _ag_member

PROPERTY = "C02"
BOUNDS = ("ACLs of 2..4 (quick) / 2..5 (thorough) lines from 7 relation templates (the 5 of C04 + multi-port eq entries + address "
          "groups inside group_by blocks), flat and grouped by '= ', numbered or not, both directions; single ACE: the C01 skeleton "
          "dimensions under a 2-way (quick) / 3-way (thorough) covering array, both directions; Address: 17 forms x 2 directions; "
          "AddressAg: native member spellings x 2 directions; AddrGroup: 1..3 members.  All addresses, ports, numbers and the probe "
          "packet symbolic.  Multi-port neq is excluded (C19).")
ASSUMPTIONS = ["an NX-OS group member 0.0.0.0/0 or a non-contiguous wildcard cannot be expressed in an IOS object-group: ValueError is a refusal",
               "ValueError when a SINGLE multi-port ACE / AceGroup is converted to NX-OS is a refusal pinned by the repository's tests, "
               "not judged", "ValueError for a non-contiguous NX-OS group member converted to IOS is the documented refusal"]


def _other(p):
    return "nxos" if p == "ios" else "ios"


def _conv3(cl, obj, src, dst, tag=""):
    """there -> back -> there reaches the same text as the first conversion"""
    t1 = obj.line
    obj.platform = src
    obj.platform = dst
    cl(tag + "there-back-there", Not_(obj.line == t1))


def h_address(ctx):
    from cisco_acl import Address
    src = ctx.pick("src", ["ios", "nxos"])
    dst = _other(src)
    form = ctx.pick("form", [f for f in G.ADDR_FORMS if f != "group"] + ["group"])
    x = ctx.fresh("x", 0, ALL)
    text, pred, _ = G._addr(ctx, form, "a", src)
    a = Address(text, platform=src, max_ncwb=30)
    a.platform = dst
    ctx.observe("after", a.line)
    ctx.reach("converted")
    cl = Claims(ctx)
    cl("platform-set", a.platform != dst)
    if pred is None:
        cl("group-keyword", not (a.line == ("object-group " if dst == "ios" else "addrgroup ") + "GRPA"))
    else:
        cl("meaning", Xor_(in_nets(x, a.ipnets()), pred(x) if callable(pred) else pred))
        try:
            toks = a.line.split()
            i, p2, ok, _ = rd.read_address(toks, 0, dst, None)
            cl("valid-syntax-on-target", Or_(i != len(toks), Not_(ok)))
            cl("rendered-meaning", Xor_(p2(x) if callable(p2) else p2, pred(x) if callable(pred) else pred))
        except rd.Reject as e:
            ctx.observe("reject", str(e))
            cl("valid-syntax-on-target", True)
    _conv3(cl, a, src, dst)
    cl.done()
    return None


def h_address_ag(ctx):
    from cisco_acl import AddressAg, AddrGroup
    src = ctx.pick("src", ["ios", "nxos"])
    dst = _other(src)
    form = ctx.pick("form", [f for f in AG_FORMS[src] if f != "group-object"])
    seq = ctx.pick("seq", [False, True]) if src == "nxos" else False
    x = ctx.fresh("x", 0, ALL)
    text = _ag_member(ctx, src, form, "m", seq)
    m = AddressAg(text, platform=src, max_ncwb=30)
    before = list(m.ipnets())
    # IOS object-group members cannot express a non-contiguous wildcard nor 0.0.0.0/0: documented refusals
    inexpressible = dst == "ios" and (m.ipnet is None or form in ("prefix:0",))
    try:
        m.platform = dst
    except ValueError:
        ctx.reach("refused")
        ctx.observe("outcome", "ValueError")
        ctx.claim("refusal-only-for-members-ios-cannot-express", not inexpressible)
        return None
    ctx.reach("converted")
    ctx.observe("after", m.line)
    cl = Claims(ctx)
    cl("meaning", Xor_(in_nets(x, m.ipnets()), in_nets(x, before)))
    _conv3(cl, m, src, dst)
    cl.done()
    return None


def h_addr_group(ctx):
    from cisco_acl import AddrGroup
    src = ctx.pick("src", ["ios", "nxos"])
    dst = _other(src)
    forms = ctx.pick("members", [[0], [0, 1], [1, 2, 0], [3, 4]])
    fl = [f for f in AG_FORMS[src] if f not in ("group-object", "wild:0.0.1.3", "prefix:0")]
    seq = ctx.pick("seq", [False, True]) if src == "nxos" else False
    x = ctx.fresh("x", 0, ALL)
    head = "object-group network GRP" if src == "ios" else "object-group ip address GRP"
    txt = head
    for k, i in enumerate(forms):
        txt = txt + "\n  " + _ag_member(ctx, src, fl[i % len(fl)], f"m{k}_", seq)
    g = AddrGroup(txt, platform=src)
    before = list(g.ipnets())
    g.platform = dst
    ctx.reach("converted")
    ctx.observe("after", g.line)
    cl = Claims(ctx)
    cl("member-count", len(g.items) != len(forms))
    cl("members-meaning", Xor_(in_nets(x, g.ipnets()), in_nets(x, before)))
    cl("name", g.name != "GRP")
    cl("header", not g.line.split("\n")[0] == ("object-group network GRP" if dst == "ios" else "object-group ip address GRP"))
    _conv3(cl, g, src, dst)
    cl.done()
    return None


def h_ace(ctx):
    from cisco_acl import Ace
    row = {k: ctx.pick(k, G.DIMS[k]) for k in sorted(G.DIMS)}
    src, dst = row["platform"], _other(row["platform"])
    sk = G.build_ace(ctx, row)
    if sk.umax != 65535:
        ctx.skip_validation()
    pkt = Pkt(ctx)
    kw = dict(platform=src, version=row["version"], port_nr=row["port_nr"], protocol_nr=row["protocol_nr"])
    ace = Ace(sk.text, **kw)
    multi = any(f in ("eq2", "eq3", "neq2") for f in (row["sp"], row["dp"]))
    try:
        ace.platform = dst
    except ValueError:
        ctx.reach("refused")
        ctx.observe("outcome", "ValueError")
        ctx.claim("refusal-only-for-multi-port-to-nxos", not (multi and dst == "nxos"))
        return None
    ctx.reach("converted")
    ctx.observe("after", ace.line)
    cl = Claims(ctx)
    cl("multi-port-must-be-refused", multi and dst == "nxos")
    try:
        r = rd.read_ace(ace.line, dst)
        cl("rendered-numerals-in-range", Not_(r["valid"]))
        cl("meaning", Xor_(r["rule"].matches(pkt), sk.rule.matches(pkt)))
        cl("action", r["rule"].action != sk.action)
        cl("sequence", V(r["rule"].seq) != V(sk.seq))
        cl("logs", list(r["rule"].logs) != sk.logs)
    except rd.Reject as e:
        ctx.observe("reject", str(e))
        cl("valid-syntax-on-target", True)
    _conv3(cl, ace, src, dst)
    cl.done()
    return None


def _n_after(spec, dst):
    """number of entries a line becomes on the target platform"""
    if spec["kind"] == "remark" or dst != "nxos":
        return 1
    n = 1
    for side in ("sport", "dport"):
        d = spec[side]
        if d is not None and d[0] in ("eq", "neq"):
            n *= len(d[1])
    return n


def h_acl(ctx):
    from cisco_acl import Acl
    name, sel = ctx.pick("acl", ACLS)
    src = ctx.pick("src", ["ios", "nxos"])
    dst = _other(src)
    numbered = ctx.pick("numbered", [False, True])
    tmpl = AG.CONV_TEMPLATES.get(name) or AG.TEMPLATES[name]
    gb = ctx.pick("group_by", ["", "= "]) if any(s["kind"] == "remark" and s["text"].startswith("= ") for s in tmpl) else ""
    w = AG.World(ctx)
    ctx.assume(V(w.p) < V(w.q))
    specs = [tmpl[i] for i in sel]
    if src == "nxos" and any(_n_after(s, "nxos") > 1 for s in specs):
        return None                       # multi-port entries do not exist on NX-OS
    s0 = ctx.fresh("s0", 1, 4000000000) if numbered else 0
    seqs = [s0 + 10 * i for i in range(len(specs))] if numbered else None
    pkt = Pkt(ctx)
    acl = Acl(AG.acl_text(w, specs, src, seqs=seqs), platform=src, group_by=gb, port_nr=True)
    AG.attach_groups(w, acl)
    rules = [AG.line_rule(w, s, 0 if seqs is None else seqs[i]) for i, s in enumerate(specs)]
    acl.platform = dst
    ctx.reach("converted")
    ctx.observe("after", acl.line)
    cl = Claims(ctx)
    cl("name", acl.name != "A1")
    try:
        parsed = rd.read_acl(acl.line, dst, AG.reader_groups(w))
    except rd.Reject as e:
        ctx.observe("reject", str(e))
        cl("valid-syntax-on-target", True)
        cl.done()
        return None
    items = parsed["items"]
    expect = []                 # (kind, seq) per resulting line, in order
    for i, s in enumerate(specs):
        expect += [(s["kind"], 0 if seqs is None else seqs[i], s)] * _n_after(s, dst)
    cl("line-count", len(items) != len(expect))
    if len(items) == len(expect):
        for k, (it, (kind, sq, s)) in enumerate(zip(items, expect)):
            cl(f"kind[{k}]", it[0] != kind)
            if it[0] == "remark" and kind == "remark":
                cl(f"remark-text[{k}]", Not_(it[2] == " ".join(s["text"].split())))
                cl(f"remark-seq[{k}]", V(it[1]) != V(sq))
            elif it[0] == "ace" and kind == "ace":
                cl(f"seq[{k}]", V(it[2]["rule"].seq) != V(sq))
                cl(f"numerals[{k}]", Not_(it[2]["valid"]))
                for side in ("sport", "dport"):
                    d = it[2]["desc"][side]
                    if dst == "nxos" and d is not None and d[0] in ("eq", "neq"):
                        cl(f"single-port[{k}]", len(d[1]) != 1)
    after_rules = [it[2]["rule"] for it in items if it[0] == "ace"]
    cl("decision-unchanged", V(decision([r for r in rules if r is not None], pkt)) != V(decision(after_rules, pkt)))
    # entries that came from one multi-port entry stand together: per original line the union of its entries = original
    k = 0
    for i, s in enumerate(specs):
        n = _n_after(s, dst)
        if s["kind"] == "ace" and len(items) == len(expect):
            part = [it[2]["rule"].matches(pkt) for it in items[k:k + n] if it[0] == "ace"]
            cl(f"same-position-same-meaning[{i}]", Xor_(Or_(part), rules[i].matches(pkt)))
        k += n
    # members of referenced address groups
    for it in _flat(acl):
        if it.__class__.__name__ == "Ace":
            for side, addr in (("src", it.srcaddr), ("dst", it.dstaddr)):
                if addr.type == "addrgroup":
                    mem = w.group_members(addr.addrgroup)
                    from oracle.packet import addr_pred
                    cl("group-members-kept:" + side, Xor_(in_nets(pkt.src, addr.ipnets()), Or_([addr_pred(pkt.src, v, m) for v, m in mem])))
    t1 = acl.line
    acl.platform = src
    acl.platform = dst
    cl("there-back-there", Not_(acl.line == t1))
    cl.done()
    return None


def _flat(acl):
    out = []
    for it in acl.items:
        if it.__class__.__name__ == "AceGroup":
            out += list(it.items)
        else:
            out.append(it)
    return out


ACLS = []


def specs(tier, seed, concrete=False):
    global ACLS
    import itertools
    import random
    from . import c04
    rnd = random.Random(seed)
    ACLS = [[n, s] for n, s in c04._selections(tier, seed)][::(2 if tier == "quick" else 1)]
    for name, tmpl in AG.CONV_TEMPLATES.items():
        n = len(tmpl)
        sels = [list(range(n))[:4], list(range(n))[1:5], list(range(n))] + [sorted(rnd.sample(range(n), 3)) for _ in range(3 if tier == "quick" else 8)]
        for s in sels:
            if [name, s] not in ACLS:
                ACLS.append([name, s])
    rows, info = ([], {}) if concrete else covering_array(G.DIMS, t=2 if tier == "quick" else 3, seed=seed + 2, valid=G.row_valid,
                                                           candidates=30 if tier == "quick" else 12)
    return [
        Spec("address", h_address, [{"src": p, "form": f} for p in ("ios", "nxos") for f in G.ADDR_FORMS], goals=["converted"],
             describe="Address.platform setter, all forms, both directions"),
        Spec("address_ag", h_address_ag, [{"src": p} for p in ("ios", "nxos")], goals=["converted", "refused"], describe="AddressAg.platform"),
        Spec("addr_group", h_addr_group, [{"src": p} for p in ("ios", "nxos")], goals=["converted"], describe="AddrGroup.platform"),
        Spec("ace", h_ace, rows, goals=["converted", "refused"], describe=f"Ace.platform over covering array {info}"),
        Spec("acl", h_acl, [{"acl": a, "src": p} for a in ACLS for p in ("ios", "nxos")], goals=["converted"], max_paths=3000,
             describe="Acl.platform: decision, order, remarks, numbers, group members, valid syntax, there-back-there"),
    ]
