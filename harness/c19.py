"""C19 - Splitting multi-port entries into single-port entries keeps the meaning."""
from symx.core import V, Or_, And_, Not_, Iff_, Xor_
from symx import text as T
from oracle.packet import Pkt, decision, port_pred, Rule
from oracle import reader as rd
from oracle import tables as tb
from . import aclgen as AG
from .common import Spec, Claims

PROPERTY = "C19"
BOUNDS = ("IOS ACEs whose source and/or destination port uses eq or neq with 1..3 (quick) / 1..4 (thorough; one side up to 6 "
          "with the other <=1) symbolic ports over 1..65535 (ordering assumption o0<o1<...: the library sorts operands), other "
          "side none/eq/neq/range/gt(fixed operand); ACE alone, inside an AceGroup, inside an ACL at first/middle/last position "
          "among 2 other lines (flat and grouped); tcp and udp; with flags/log tokens and a symbolic sequence number.")
ASSUMPTIONS = ["multi-port neq is a listed KNOWN FINDING (pinned by the repository's tests): `neq a b` is split into `neq a`, "
               "`neq b` whose union is every port; eq and single-port neq are fully checked"]

SIDE_FORMS = ["none", "eq1", "eq2", "eq3", "neq1", "neq2", "neq3", "range"]


def _side(ctx, form, name, kmax_sorted=True):
    """-> (text, predicate, n operands, operator)"""
    if form == "none":
        return "", True, 0, ""
    if form == "range":
        a = ctx.fresh(name + "a", 1, 65533)
        return "range " + T.num(a) + " " + T.num(a + 2), (lambda f, a=a: And_(V(f) >= V(a), V(f) <= V(a) + 2)), 2, "range"
    op, n = form[:-1], int(form[-1])
    hi = 65535
    if op == "neq":
        # the library materialises all ports for neq: universe shrunk to 1..8, operands inside it
        if ctx.symbolic:
            from symx import shims
            shims.PORT_MAX = 8
        hi = (8 if n == 1 else 5) if ctx.symbolic else 65535
    ops = [ctx.fresh(f"{name}{k}", 1, hi) for k in range(n)]
    for a, b in zip(ops, ops[1:]):
        ctx.assume(V(a) < V(b))
    t = op
    for o in ops:
        t = t + " " + T.num(o)
    return t, (lambda f, op=op, ops=ops: port_pred(op, ops, f)), n, op


VARIANTS = [["tcp", "ack log", "sym"], ["tcp", "", "none"], ["udp", "log", "none"], ["udp", "", "sym"]]


def _make(ctx, tag="", variants=VARIANTS):
    proto, opt, seq = ctx.pick("variant", variants)
    sf, df = ctx.pick("sp", SIDE_FORMS), ctx.pick("dp", SIDE_FORMS)
    a_s, a = T.fresh_quad(ctx, tag + "a")
    st, sp, sn, sop = _side(ctx, sf, tag + "s")
    dt, dp, dn, dop = _side(ctx, df, tag + "d")
    sq = ctx.fresh(tag + "seq", 1, 4294967295) if seq == "sym" else 0
    toks = ([T.num(sq)] if seq == "sym" else []) + ["permit", proto, "host " + a_s, st, "any", dt] + ([opt] if opt else [])
    line = T.join(toks)
    flags = [x for x in opt.split() if x in ("ack",)]
    rule = Rule("permit", tb.PROTO[proto], (lambda f, a=a: V(f) == V(a)), True, sp, dp, flags, sq)
    need_split = (sop in ("eq", "neq") and sn > 1) or (dop in ("eq", "neq") and dn > 1)
    n_expected = (sn if sop in ("eq", "neq") else 1) * (dn if dop in ("eq", "neq") else 1)
    return dict(line=line, rule=rule, need_split=need_split, n=max(n_expected, 1), sf=sf, df=df, proto=proto, opt=opt, a=a, seq=sq)


def _check_splits(ctx, cl, m, lines, pkt, tag=""):
    """lines: rendered split entries"""
    cl(tag + "count", len(lines) != m["n"])
    preds = []
    for k, l in enumerate(lines):
        try:
            r = rd.read_ace(l, "ios")
        except rd.Reject as e:
            ctx.observe("reject", str(e))
            cl(tag + f"split[{k}]-valid", True)
            continue
        preds.append(r["rule"].matches(pkt))
        for side in ("sport", "dport"):
            d = r["desc"][side]
            if d is not None and d[0] in ("eq", "neq"):
                cl(tag + f"split[{k}]-one-{side}", len(d[1]) != 1)
        cl(tag + f"split[{k}]-action", r["rule"].action != "permit")
        cl(tag + f"split[{k}]-proto", V(r["rule"].proto) != tb.PROTO[m["proto"]])
        cl(tag + f"split[{k}]-src", Xor_(r["rule"].src_p(pkt), V(pkt.src) == V(m["a"])))
        cl(tag + f"split[{k}]-dst", Not_(r["rule"].dst_p(pkt)))
        cl(tag + f"split[{k}]-options", list(r["rule"].flags) + list(r["rule"].logs) != m["opt"].split())
        cl(tag + f"split[{k}]-sequence", V(r["rule"].seq) != V(m["seq"]))
    cl(tag + "union", Xor_(Or_(preds), m["rule"].matches(pkt)))


def _pkt(ctx, m):
    shrunk = ctx.symbolic and ("neq" in m["sf"] or "neq" in m["df"])
    return Pkt(ctx, port_max=8 if shrunk else 65535)


def h_ace(ctx):
    from cisco_acl import Ace
    m = _make(ctx)
    pkt = _pkt(ctx, m)
    ace = Ace(m["line"], platform="ios", port_nr=True)
    before = ace.line
    out = ace.ungroup_ports()
    ctx.observe("before", before)
    ctx.observe("after", [o.line for o in out])
    cl = Claims(ctx)
    if not m["need_split"]:
        ctx.reach("untouched")
        cl("no-split-returns-self", not (len(out) == 1 and out[0] is ace))
    else:
        ctx.reach("split")
    cl("source-unchanged", Not_(ace.line == before))
    _check_splits(ctx, cl, m, [o.line for o in out], pkt)
    cl.done()
    return None


OTHERS = ["deny ip any any", "remark note", "permit udp any any eq 53", "permit icmp any any", "remark = g2"]


def h_acl(ctx):
    """the multi-port ACE at position 0/1/2 among two other lines of an ACL (flat or grouped) or AceGroup"""
    from cisco_acl import Acl, AceGroup
    kind = ctx.pick("container", ["acl", "acl-grouped", "acegroup"])
    pos = ctx.pick("pos", [0, 1, 2])
    o1, o2 = ctx.pick("others", [[0, 1], [4, 2]])
    m = _make(ctx, variants=VARIANTS[:2])
    pkt = _pkt(ctx, m)
    body = [OTHERS[o1], OTHERS[o2]]
    body.insert(pos, m["line"])
    if kind == "acegroup":
        obj = AceGroup(T.join(body, "\n"), platform="ios", port_nr=True)
        lines0 = [o.line for o in obj.items]
    else:
        head = ["remark = g1"] if kind == "acl-grouped" else []
        txt = T.join(["ip access-list extended A"] + ["  " + l for l in head + body], "\n")
        obj = Acl(txt, platform="ios", port_nr=True, group_by="= " if kind == "acl-grouped" else "")
        lines0 = [l.strip() for l in obj.line.split("\n")[1:]]
    ids0 = _flat_ids(obj)
    obj.ungroup_ports()
    lines1 = [o.line for o in obj.items] if kind == "acegroup" else [l.strip() for l in obj.line.split("\n")[1:]]
    ids1 = _flat_ids(obj)
    ctx.observe("before", lines0)
    ctx.observe("after", lines1)
    ctx.reach("split" if m["need_split"] else "untouched")
    off = 1 if kind == "acl-grouped" else 0
    p = pos + off
    cl = Claims(ctx)
    cl("length", len(lines1) != len(lines0) - 1 + m["n"])
    if len(lines1) == len(lines0) - 1 + m["n"]:
        # the new entries stand where the original stood; everything else is identical and in place
        cl("prefix-untouched", Not_(And_([a == b for a, b in zip(lines1[:p], lines0[:p])])))
        cl("suffix-untouched", Not_(And_([a == b for a, b in zip(lines1[p + m["n"]:], lines0[p + 1:])])))
        cl("untouched-same-objects", ids1[:p] != ids0[:p] or ids1[p + m["n"]:] != ids0[p + 1:])
        if not m["need_split"]:
            cl("unsplit-entry-same-object", ids1[p] != ids0[p])
        _check_splits(ctx, cl, m, lines1[p:p + m["n"]], pkt, "acl:")
        # first-match decision of the whole list unchanged
        try:
            before_rules = [m["rule"] if i == p else rd.read_ace(l, "ios")["rule"] for i, l in enumerate(lines0)
                            if not _is_remark(l)]
            after_rules = [rd.read_ace(l, "ios")["rule"] for l in lines1 if not _is_remark(l)]
            cl("decision-unchanged", V(decision(before_rules, pkt)) != V(decision(after_rules, pkt)))
        except rd.Reject as e:
            ctx.observe("reject", str(e))
            cl("rendered-valid", True)
    cl.done()
    return None


def _is_remark(l):
    t = l.split()
    return t[0] == "remark" or (len(t) > 1 and t[1] == "remark")


def _flat_ids(obj):
    out = []
    for it in obj.items:
        if it.__class__.__name__ == "AceGroup":
            out += [id(x) for x in it.items]
        else:
            out.append(id(it))
    return out


def _n(form):
    return int(form[-1]) if form[-1].isdigit() else 1


def _shards(tier, with_pos):
    """one side ranges over every form while the other is simple, plus the multi x multi combinations"""
    forms = SIDE_FORMS if tier == "quick" else SIDE_FORMS + ["eq4", "neq4", "eq6"]
    simple = ["none", "eq1", "range"]
    multi = [("eq2", "eq2"), ("eq2", "neq2"), ("neq2", "eq2"), ("eq3", "eq2")] + \
        ([] if tier == "quick" else [("eq3", "eq3"), ("neq2", "neq2"), ("eq4", "eq2"), ("neq3", "eq3")])
    out = []
    for f in forms:
        for g in simple:
            out.append({"sp": f, "dp": g})
            if f not in simple:
                out.append({"sp": g, "dp": f})
    out += [{"sp": a, "dp": b} for a, b in multi]
    return out


ACL_FORMS = [("eq2", "none"), ("none", "eq2"), ("eq2", "eq2"), ("neq2", "none"), ("eq3", "none"), ("neq1", "none"),
             ("none", "none"), ("range", "eq1"), ("none", "neq2")]


def specs(tier, seed, concrete=False):
    global SIDE_FORMS
    if tier != "quick" and "eq4" not in SIDE_FORMS:
        SIDE_FORMS = SIDE_FORMS + ["eq4", "neq4", "eq6"]
    shards = _shards(tier, False)
    acl_shards = [dict(sp=a, dp=b, container=c) for a, b in ACL_FORMS for c in ("acl", "acl-grouped", "acegroup")]
    return [
        Spec("ace", h_ace, shards, goals=["split", "untouched"], describe="Ace.ungroup_ports(): union of the split entries = original entry"),
        Spec("acl", h_acl, acl_shards, goals=["split", "untouched"], max_paths=3000,
             describe="Acl/AceGroup.ungroup_ports(): position, untouched neighbours, first-match decision"),
    ]
