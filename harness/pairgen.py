"""Ordered pairs (top, bottom) of ACE skeletons for the shadow properties (C03, C04, C11)."""
from symx.core import V, Or_, And_, Not_, Iff_, Xor_
from symx.covering import covering_array
from oracle import inclusion as inc
from oracle.packet import ALL
from . import acegen as G

ADDR_P = ["any", "host", "wild:0.0.0.255", "wild:0.0.1.3", "wild:0.0.0.1", "prefix:24", "wild:128.0.0.1", "ones"]
ADDR_G = ["groupm:0.0.0.255", "groupm:0.0.0.0+0.0.1.3", "groupm:0.0.0.0+0.0.0.0", "group"]
# bottoms that expand to >= 3 networks against tops made of several networks (targeted single-field rows)
MANY_TOPS = ["groupm:0.0.0.255+0.0.0.255", "prefix:24"]
MANY_BOTS = ["wild:0.0.5.0", "groupm:0.0.0.0+0.0.0.0+0.0.0.0"]
PORT_P = ["none", "eq1", "eq2", "range", "gt", "lt", "neq1"]
PROTO_P = ["ip", "tcp", "udp", "icmp", "nsym"]      # nsym: a numeric protocol, symbolic over 0..255 (single-field rows)
PROTO_X = ["ip", "tcp", "udp", "icmp"]
FLAGS_P = [[], ["ack"], ["fin"], ["psh"], ["rst"], ["syn"], ["urg"], ["ack", "syn"], ["ack", "fin", "psh", "rst", "syn", "urg"]]
FLAGS_X = [[], ["ack"], ["urg"], ["ack", "syn"]]       # cross-field rows
LOG_P = ["", "log"]
UNIVERSE = 5          # shrunk port universe 1..5 for pairs (all operands inside it: a closed small world)
SKIPS = [[], ["addrgroup"], ["nc_wildcard"], ["addrgroup", "nc_wildcard"], ["nc_wildcard", "addrgroup"]]


def dims(groups=True):
    addr = ADDR_P + ((ADDR_G + [x for x in MANY_TOPS + MANY_BOTS if x not in ADDR_P + ADDR_G]) if groups else [])
    d = dict(platform=["ios", "nxos"])
    for side in ("t", "b"):
        d[side + "act"] = ["permit", "deny"]
        d[side + "proto"] = PROTO_P
        d[side + "sa"] = addr
        d[side + "da"] = addr
        d[side + "sp"] = PORT_P
        d[side + "dp"] = PORT_P
        d[side + "flags"] = FLAGS_P
        d[side + "log"] = LOG_P
    return d


def side_row(row, side):
    r = dict(platform=row["platform"], port_nr=True, act=row[side + "act"], seq="none", proto=row[side + "proto"],
             sa=row[side + "sa"], da=row[side + "da"], sp=row[side + "sp"], dp=row[side + "dp"],
             flags=row[side + "flags"], log=row[side + "log"], ws="single")
    return r


def valid(row):
    n_universe = 0
    for side in ("t", "b"):
        r = side_row(row, side)
        if not G.row_valid(r):
            return False
        n_universe += sum(1 for k in ("sp", "dp") if r[k] in ("neq1", "gt", "lt"))
    return n_universe <= 2          # every neq/gt/lt operand is enumerated by the library's own loops (5 paths each)


HEAVY_BUDGET = 2        # quick: at most this many path-multiplying fields per cross-field row (thorough: 3)


def cheap(row):
    """cross-field rows: bound the product of per-field path counts (each multi-network address multiplies the paths
    of the subnet loops, each enumerated port operand multiplies by the universe size)"""
    heavy_addr = sum(1 for side in ("t", "b") for k in ("sa", "da")
                     if row[side + k].startswith("groupm:") or row[side + k] in ("wild:0.0.1.3", "wild:128.0.0.1", "wild:0.0.0.1"))
    two_member = sum(1 for side in ("t", "b") for k in ("sa", "da") if "+" in row[side + k])
    heavy_port = sum(1 for side in ("t", "b") for k in ("sp", "dp") if row[side + k] in ("neq1", "gt", "lt", "range", "eq2"))
    if HEAVY_BUDGET > 2:
        # thorough: weighted budget - an operand enumerated over the port universe (gt/lt/neq) and a two-member group count double
        # (measured: rows with three of those took 200-500 s each and dominated the tier)
        uni = sum(1 for side in ("t", "b") for k in ("sp", "dp") if row[side + k] in ("neq1", "gt", "lt"))
        return (valid(row) and heavy_addr <= 2 and two_member <= 1 and heavy_port <= 2
                and heavy_addr + heavy_port + uni + two_member <= HEAVY_BUDGET + 1)
    return valid(row) and heavy_addr <= 2 and two_member <= 1 and heavy_port <= 2 and heavy_addr + heavy_port <= HEAVY_BUDGET


NEUTRAL = dict(act="permit", proto="ip", sa="any", da="any", sp="none", dp="none", flags=[], log="")
CROSS_ADDR = ["any", "host", "wild:0.0.0.255", "wild:0.0.1.3", "prefix:24"]
CROSS_ADDR_G = ["groupm:0.0.0.255", "groupm:0.0.0.0+0.0.1.3"]
CROSS_PORT = ["none", "eq1", "range", "gt", "lt"]


def _neutral_row(platform, proto="ip"):
    row = dict(platform=platform)
    for side in ("t", "b"):
        for k, v in NEUTRAL.items():
            row[side + k] = v
        row[side + "proto"] = proto
    return row


def rows(t, seed, groups=True, candidates=30, bias_true=True):
    """(1) every field on its own: ALL (top value, bottom value) combinations of that field, the other fields neutral
    (top any/ip/no port covers everything, so the field alone decides the answer); (2) a t-way covering array across
    fields over cheaper representative values, each row doubled by a same-action / covering-protocol twin."""
    global HEAVY_BUDGET
    HEAVY_BUDGET = 2 if t <= 2 else 3
    ds = dims(groups)
    out = []
    n = 0
    for field, proto in (("act", "ip"), ("proto", "ip"), ("sa", "ip"), ("da", "ip"), ("sp", "tcp"), ("dp", "udp"),
                         ("flags", "tcp"), ("log", "ip")):
        base = (ADDR_P + (ADDR_G if groups else [])) if field in ("sa", "da") else None
        for tv in (base or ds["t" + field]):
            for bv in (base or ds["b" + field]):
                n += 1
                for platform in (("ios", "nxos") if field in ("sa", "da") and n % 2 else (("ios", "nxos")[n % 2],)):
                    row = _neutral_row(platform, proto)
                    row["t" + field], row["b" + field] = tv, bv
                    if valid(row):
                        out.append(row)
    if groups:
        for field in ("sa", "da"):
            for tv in MANY_TOPS:
                for bv in MANY_BOTS:
                    n += 1
                    if (field == "sa") != (n % 2 == 0):
                        continue                      # alternate between the source and the destination field
                    row = _neutral_row(("ios", "nxos")[(n // 2) % 2], "ip")
                    row["t" + field], row["b" + field] = tv, bv
                    out.append(row)
    cross = dict(ds)
    for side in ("t", "b"):
        cross[side + "sa"] = cross[side + "da"] = CROSS_ADDR + (CROSS_ADDR_G if groups else [])
        cross[side + "sp"] = cross[side + "dp"] = CROSS_PORT
        cross[side + "flags"] = FLAGS_X
        cross[side + "proto"] = PROTO_X
    arr, info = covering_array(cross, t=t, seed=seed, valid=cheap, candidates=candidates)
    out += arr
    if bias_true:
        for r in arr:
            q = dict(r)
            q["tact"] = q["bact"]
            q["tproto"] = q["bproto"] if q["bproto"] != "ip" and (seed + len(out)) % 2 == 0 else "ip"
            if q["tproto"] == "ip":
                q["tsp"] = q["tdp"] = "none"
                q["tflags"] = []
            elif q["tproto"] != "tcp":
                q["tflags"] = []
            if cheap(q):
                out.append(q)
    info = dict(info, single_field_rows=len(out) - len(arr) * (2 if bias_true else 1))
    return out, info


def build_pair(ctx, row):
    """-> (top skeleton, bottom skeleton); one shared shrunk port universe when any side uses neq/gt/lt"""
    tr, br = side_row(row, "t"), side_row(row, "b")
    shrink = G.uses_universe(tr) or G.uses_universe(br)
    top = G.build_ace(ctx, tr, tag="t", shrink=shrink, small=UNIVERSE, closed_world=True, ordered_range=True)
    bot = G.build_ace(ctx, br, tag="b", shrink=shrink, small=UNIVERSE, closed_world=True, ordered_range=True)
    return top, bot


def make_aces(top, bot, platform):
    from cisco_acl import Ace
    t = Ace(top.text, platform=platform, port_nr=True, max_ncwb=30, **top.kwargs)
    b = Ace(bot.text, platform=platform, port_nr=True, max_ncwb=30, **bot.kwargs)
    return t, b


# ---------------------------------------------------------------- closed-form inclusion of two group-free skeletons


def _addr_incl(b, t):
    """bottom address set inside top address set (descriptors (kind, base, mask)); closed form, lemma-backed"""
    return inc.wild_subset(b[1], b[2], t[1], t[2])


def _port_crit(b, t, umax):
    pts = [1, umax]
    for d in (b, t):
        if d is not None:
            for o in d[1]:
                pts += [o - 1, o, o + 1]
    return pts


def _port_incl(b, bp, t, tp, umax):
    """bottom port set inside top port set, within 1..umax: checked at the critical points (see lemma)"""
    if t is None:
        return True
    conds = []
    for c in _port_crit(b, t, umax):
        inside = And_(V(c) >= 1, V(c) <= umax)
        conds.append(Or_(Not_(inside), Not_(bp(c) if callable(bp) else bp), tp(c) if callable(tp) else tp))
    return And_(conds)


def _flags_incl(b, t):
    if not t:
        return True
    if not b:
        return False
    return set(b) <= set(t)


def inclusion(bot, top):
    """every packet matched by `bot` is matched by `top` (both group-free), as a quantifier-free formula"""
    proto = Or_(V(top.proto) == 0, V(top.proto) == V(bot.proto))
    return And_(proto, _addr_incl(bot.src, top.src), _addr_incl(bot.dst, top.dst),
                _port_incl(bot.sport, bot.sport_p, top.sport, top.sport_p, bot.umax),
                _port_incl(bot.dport, bot.dport_p, top.dport, top.dport_p, bot.umax),
                _flags_incl(bot.flags, top.flags))


def noncontig(desc):
    return desc[0] == "wild" and (desc[2] & (desc[2] + 1)) != 0


def port_lemmas(forms=None):
    """critical-point evaluation decides inclusion of port sets: if every critical point of the bottom set lies in the
    top set then so does every port (quantifier-free: the port p is a free variable of the refutation query)."""
    import z3
    from oracle.packet import port_pred
    out = []
    W = 64
    shapes = {"eq1": ("eq", 1), "eq2": ("eq", 2), "eq3": ("eq", 3), "neq1": ("neq", 1), "neq2": ("neq", 2),
              "gt": ("gt", 1), "lt": ("lt", 1), "range": ("range", 2), "none": None}
    umax = z3.BitVec("lu", W)
    p = z3.BitVec("lp", W)
    forms = forms or PORT_P
    for bn, bs in shapes.items():
        for tn, ts in shapes.items():
            if ts is None or bn not in forms or tn not in forms:
                continue
            b_ops = [z3.BitVec(f"lb{i}", W) for i in range(bs[1])] if bs else []
            t_ops = [z3.BitVec(f"lt{i}", W) for i in range(ts[1])]
            dom = [umax >= 1, umax <= 65535, p >= 1, p <= umax] + [z3.And(o >= 0, o <= 65536) for o in b_ops + t_ops]
            bp = (lambda f: port_pred(bs[0], b_ops, f)) if bs else (lambda f: True)
            tp = lambda f: port_pred(ts[0], t_ops, f)
            crit = _port_incl((bs[0], b_ops) if bs else None, bp, (ts[0], t_ops), tp, umax)
            bpv = bp(p)
            out.append((f"port critical points decide inclusion: bottom {bn} in top {tn}",
                        z3.And(*dom, crit, bpv if not isinstance(bpv, bool) else z3.BoolVal(bpv), z3.Not(tp(p)))))
    return out


import re as _re
_PORT_VAR = _re.compile(r"(sp|dp)[0-9ab]$|_sport$|_dport$")


def replay_variants(v):
    """A counterexample found in the shrunk port universe 1..n is transported to the real universe: every port value
    >= t is shifted by 65535 - n (order and equality are preserved; adjacency is preserved except across t, so every
    threshold t is tried).  Returns alternative value assignments for the concrete replay."""
    n = UNIVERSE
    vals = v["values"]
    ports = [k for k in vals if _PORT_VAR.search(k)]
    if not ports or max(vals[k] for k in ports) > n + 1:
        return []
    out = []
    for t in range(n + 1, 0, -1):
        alt = dict(vals)
        for k in ports:
            if vals[k] >= t:
                alt[k] = vals[k] + 65535 - n
        if alt != vals:
            out.append(alt)
    return out
