"""C12 - No rule line is lost without a trace when objects are built from text."""
import itertools
import logging
import random

from symx.core import V, Or_, And_, Not_, Iff_, Xor_, SymStr
from symx import text as T
from .common import Spec, Claims

PROPERTY = "C12"
BOUNDS = ("bodies of 1..4 (quick) / 1..5 (thorough) lines drawn (all sequences up to length 2, seeded sample beyond) from 7 valid "
          "shapes, 3 documented ignorable prefixes and 11 invalid shapes (unknown keyword, bare action, truncated ACE, bad protocol, "
          "bad operator, out-of-range octet/port/protocol with SYMBOLIC numerals, garbage after the ACE, over-limit wildcard, ...), "
          "for Acl (both platforms), AceGroup and AddrGroup; a logging handler on the root logger records every record.")
ASSUMPTIONS = ["a report 'names the line' when the record's message contains the line's distinctive token",
               "mostly structural: the solver covers the numerals inside valid and invalid lines"]

# kind, text template ({a}/{b} = symbolic dotted quads, {n} = symbolic number), tag
VALID = [
    ("ace", "permit ip host {a} any", "v0"),
    ("remark", "remark note v1", "v1"),
    ("ace", "deny tcp {a} 0.0.0.255 any eq {p}", "v2"),
    ("ace", "{s} permit udp any host {b}", "v3"),
    ("remark", "{s} remark = heading v4", "v4"),
    ("ace", "permit icmp any any log", "v5"),
    ("ace", "deny ip any any", "v6"),
]
IGNORABLE = [("ign", "statistics per-entry", "i0"), ("ign", "description text i1", "i1"), ("ign", "ignore i2", "i2")]
INVALID = [
    ("bad", "allow ip any any BAD0", "BAD0"),
    ("bad", "permit", "permit"),
    ("bad", "permit ip any", "permit ip any"),
    ("bad", "permit BAD3 any any", "BAD3"),
    ("bad", "permit tcp any any foo 80", "foo"),
    ("bad", "permit ip {a}.7 0.0.0.255 any", ".7 0.0.0.255"),
    ("bad", "permit tcp any any eq BAD6", "BAD6"),
    ("bad", "permit {big} any any", " any any"),
    ("bad", "no permit ip any any", "no permit"),
    ("bad", "permit ip host {a} any 1BAD9", "1BAD9"),
    ("bad", "deny ip any object-group", "object-group"),
]
FATAL = [("fatal", "permit ip {a} 255.170.170.170 any", "255.170.170.170")]      # more non-contiguous bits than the limit


class _Cap(logging.Handler):
    def __init__(self):
        super().__init__(level=logging.DEBUG)
        self.records = []

    def emit(self, record):
        self.records.append(record)


def _capture():
    cap = _Cap()
    root = logging.getLogger()
    state = (root.level, logging.root.manager.disable)
    logging.disable(logging.NOTSET)
    root.setLevel(logging.DEBUG)
    root.addHandler(cap)
    return cap, state


def _release(cap, state):
    root = logging.getLogger()
    root.removeHandler(cap)
    root.setLevel(state[0])
    logging.disable(state[1])


def _msg_text(record):
    """display text of a record's message (symbolic parts are rendered as placeholders; concrete parts verbatim)"""
    m = record.msg
    if type(m) is SymStr:
        return "".join(p if type(p) is str else "<N>" for p in m.parts)
    try:
        return record.getMessage()
    except Exception:
        return str(m)


def _render(ctx, tmpl, k):
    out = tmpl
    parts = []
    if "{" not in tmpl:
        return tmpl
    # assemble text with symbolic atoms
    import re
    pieces = re.split(r"(\{[a-z]+\})", tmpl)
    res = ""
    for pc in pieces:
        if pc == "{a}" or pc == "{b}":
            s, v = T.fresh_quad(ctx, f"l{k}{pc[1]}")
            res = res + s
        elif pc == "{p}":
            res = res + T.num(ctx.fresh(f"l{k}p", 1, 65535))
        elif pc == "{s}":
            res = res + T.num(ctx.fresh(f"l{k}s", 1, 4294967295))
        elif pc == "{big}":
            res = res + T.num(ctx.fresh(f"l{k}big", 256, 100000))
        elif pc:
            res = res + pc
    return res


POOL = VALID + IGNORABLE + INVALID + FATAL


def _bodies(tier, seed):
    rnd = random.Random(seed)
    idx = list(range(len(POOL)))
    out = [[i] for i in idx] + [[i, j] for i in idx for j in idx if (i + j) % (1 if tier != "quick" else 3) == 0]
    for n, cnt in ((3, 60), (4, 60)) if tier == "quick" else ((3, 300), (4, 300), (5, 200)):
        for _ in range(cnt):
            out.append([rnd.choice(idx) for _ in range(n)])
    return out


def h_acl(ctx):
    """Acl / AceGroup built from text: every body line is an item at its place, ignorable, reported, or the build fails"""
    from cisco_acl import Acl, AceGroup
    from ipaddress import NetmaskValueError
    kind = ctx.pick("class", ["Acl", "AceGroup"])
    platform = ctx.pick("platform", ["ios", "nxos"])
    body = ctx.pick("body", BODIES)
    lines = [(POOL[i][0], _render(ctx, POOL[i][1], k), POOL[i][2]) for k, i in enumerate(body)]
    head = "ip access-list extended A" if platform == "ios" else "ip access-list A"
    cap, state = _capture()
    try:
        try:
            if kind == "Acl":
                obj = Acl(T.join([head] + ["  " + l[1] for l in lines], "\n"), platform=platform, port_nr=True)
            else:
                obj = AceGroup(T.join([l[1] for l in lines], "\n"), platform=platform, port_nr=True)
        except (ValueError, TypeError) as e:
            ctx.reach("failed")
            ctx.observe("outcome", type(e).__name__)
            # the whole construction may only fail for a line that cannot be represented (here: the over-limit wildcard)
            ctx.claim("failure-only-for-fatal-line", not any(l[0] == "fatal" for l in lines))
            return None
    finally:
        _release(cap, state)
    ctx.reach("built")
    warnings = [r for r in cap.records if r.levelno >= logging.WARNING]
    msgs = [_msg_text(r) for r in warnings]
    items = list(obj.items)
    ctx.observe("items", [o.line for o in items])
    ctx.observe("n_warnings", len(warnings))
    valid = [l for l in lines if l[0] in ("ace", "remark")]
    bad = [l for l in lines if l[0] in ("bad", "fatal")]
    ign = [l for l in lines if l[0] == "ign"]
    cl = Claims(ctx)
    cl("fatal-line-must-fail", any(l[0] == "fatal" for l in lines))
    cl("accounting", len(items) + len(warnings) + len(ign) != len(lines))
    cl("valid-lines-all-present", len(items) != len(valid))
    if len(items) == len(valid):
        for k, (it, l) in enumerate(zip(items, valid)):
            cl(f"item[{k}]-kind", (it.__class__.__name__ == "Remark") != (l[0] == "remark"))
            cl(f"item[{k}]-is-that-line", l[2] not in _plain(it.line) if l[0] == "remark" else False)
    cl("every-invalid-line-reported", len(warnings) != len(bad))
    for l in bad:
        cl("report-names-line:" + l[2], not any(l[2] in m for m in msgs))
    cl.done()
    return None


def _plain(s):
    return s if type(s) is str else "".join(p if type(p) is str else "<N>" for p in s.parts)


AG_VALID = {"ios": [("ok", "host {a}", "host"), ("ok", "{a} 255.255.255.0", "255.255.255.0"), ("ok", "description text", "description")],
            "nxos": [("ok", "host {a}", "host"), ("ok", "{s} {a}/24", "/24"), ("ok", "{a} 0.0.0.255", "0.0.0.255")]}
AG_INVALID = [("bad", "BADA text", "BADA"), ("bad", "{a}.9 255.255.255.0", ".9 255"), ("bad", "host", "host"), ("bad", "10.0.0.0/33", "/33")]


def h_addrgroup(ctx):
    """AddrGroup built from text: members accounted for by an item, a log record, or an error"""
    from cisco_acl import AddrGroup
    platform = ctx.pick("platform", ["ios", "nxos"])
    pool = AG_VALID[platform] + AG_INVALID
    body = ctx.pick("body", AG_BODIES)
    lines = []
    for k, i in enumerate(body):
        kind, tmpl, tag = pool[i % len(pool)]
        txt = _render(ctx, tmpl, k)
        if "{a}" in tmpl and "/24" in tmpl or "255.255.255.0" in tmpl and kind == "ok":
            pass
        lines.append((kind, txt, tag, tmpl))
    # network members must be written without host bits
    head = "object-group network G" if platform == "ios" else "object-group ip address G"
    cap, state = _capture()
    try:
        try:
            g = AddrGroup(T.join([head] + ["  " + l[1] for l in lines], "\n"), platform=platform)
        except (ValueError, TypeError) as e:
            ctx.reach("failed")
            ctx.observe("outcome", type(e).__name__)
            return None
    finally:
        _release(cap, state)
    ctx.reach("built")
    n_desc = sum(1 for l in lines if l[3].startswith("description"))
    n_ok = sum(1 for l in lines if l[0] == "ok") - n_desc
    n_bad = sum(1 for l in lines if l[0] == "bad")
    ctx.observe("items", [o.line for o in g.items])
    ctx.observe("records", len(cap.records))
    cl = Claims(ctx)
    # valid members may additionally be rejected for host bits (ValueError inside) - then they must be reported
    cl("accounting", len(g.items) + len(cap.records) + n_desc < len(lines))
    cl("never-more-items-than-lines", len(g.items) > n_ok + n_bad)
    cl.done()
    return None


BODIES = []
AG_BODIES = []


def specs(tier, seed, concrete=False):
    global BODIES, AG_BODIES
    BODIES = _bodies(tier, seed)
    rnd = random.Random(seed + 5)
    AG_BODIES = [[i] for i in range(7)] + [[i, j] for i in range(7) for j in range(7)] + [[rnd.randrange(7) for _ in range(3)] for _ in range(30)]
    return [
        Spec("acl", h_acl, [{"body": b, "class": c} for b in BODIES for c in ("Acl", "AceGroup")], goals=["built", "failed"],
             describe="Acl/AceGroup(line=...): items + warnings + ignorable = body lines; positions; reports name the line"),
        Spec("addrgroup", h_addrgroup, [{"body": b} for b in AG_BODIES], goals=["built", "failed"],
             describe="AddrGroup(line=...): items + log records account for every member line"),
    ]
