"""Small ACLs with symbolic fields and their independent meaning (ordered rule lists).

Lines are described by specs over a handful of shared symbolic addresses/ports so that nesting, overlap, duplicates and
disjointness occur by construction (relation templates) while the bases stay free over the whole address space."""
from symx.core import V, Or_, And_, Not_
from symx import text as T
from oracle.packet import Rule, addr_pred, port_pred, ALL
from oracle import tables as tb
from .common import m2i, i2m

SEQ_MAX = 4294967295


class World:
    """shared symbolic values of one ACL: addresses X, Xh (host inside X/24), Y, Z; ports p, q"""

    def __init__(self, ctx, tag=""):
        self.ctx = ctx
        f = ctx.fresh
        x = [f(tag + f"x{i}", 0, 255) for i in range(4)]
        y = [f(tag + f"y{i}", 0, 255) for i in range(4)]
        h = f(tag + "h", 0, 255)
        self.oct = {"X": x, "Xh": [x[0], x[1], x[2], h], "Y": y}
        self.val = {k: (o[0] << 24) | (o[1] << 16) | (o[2] << 8) | o[3] for k, o in self.oct.items()}
        self.txt = {k: T.quad_of_octets(o) for k, o in self.oct.items()}
        self.p = f(tag + "p", 1, 65533)
        self.q = f(tag + "q", 1, 65535)
        self.ports = {"p": self.p, "q": self.q, "p2": self.p + 2}
        self.groups = {"G1": [("X", m2i("0.0.0.255")), ("Y", 0)], "G2": [("Xh", 0)]}
        self.tag = tag
        self._protos = {}

    def proto(self, name):
        """number of a protocol written numerically: n1/n2 are free over 143..252 (no platform has a keyword there)"""
        if name not in self._protos:
            self._protos[name] = self.ctx.fresh(self.tag + name, 143, 252)
        return self._protos[name]

    def group_members(self, name):
        """[(base value, mask)] of an address group"""
        return [(self.val[b], m) for b, m in self.groups[name]]

    def group_lines(self, name):
        return [("host " + self.txt[b]) if m == 0 else (self.txt[b] + " " + i2m(m)) for b, m in self.groups[name]]


NUMERIC_PROTOS = ("n1", "n2")


def A(act, proto="ip", src="any", dst="any", dport=None, sport=None, flags=(), log=""):
    return dict(kind="ace", act=act, proto=proto, src=src, dst=dst, dport=dport, sport=sport, flags=list(flags), log=log)


def R(text):
    return dict(kind="remark", text=text)


def _addr_text(w, a, platform):
    if a == "any":
        return "any"
    k = a[0]
    if k == "h":
        return "host " + w.txt[a[1]]
    if k == "w":
        return w.txt[a[1]] + " " + a[2]
    if k == "p":            # prefix (nxos spelling); base must be aligned: only used with X and len 24 via mask
        return w.txt[a[1]] + "/" + str(a[2])
    if k == "g":
        return ("object-group " if platform == "ios" else "addrgroup ") + a[1]
    raise ValueError(a)


def _addr_pred(w, a):
    if a == "any":
        return True
    k = a[0]
    if k == "h":
        v = w.val[a[1]]
        return lambda f, v=v: V(f) == V(v)
    if k == "w":
        v, mi = w.val[a[1]], m2i(a[2])
        return lambda f, v=v, mi=mi: addr_pred(f, v, mi)
    if k == "p":
        v, hm = w.val[a[1]], (1 << (32 - a[2])) - 1
        return lambda f, v=v, hm=hm: addr_pred(f, v, hm)
    if k == "g":
        mem = w.group_members(a[1])
        return lambda f, mem=mem: Or_([addr_pred(f, v, m) for v, m in mem])
    raise ValueError(a)


def _port_text(w, d):
    if d is None:
        return ""
    op, names = d
    t = op
    for n in names:
        t = t + " " + T.num(w.ports[n])
    return t


def _port_pred(w, d):
    if d is None:
        return True
    op, names = d
    ops = [w.ports[n] for n in names]
    return lambda f, op=op, ops=ops: port_pred(op, ops, f)


def line_text(w, spec, platform, seq=None):
    if spec["kind"] == "remark":
        body = "remark " + spec["text"]
    else:
        toks = [spec["act"], (T.num(w.proto(spec["proto"])) if spec["proto"] in NUMERIC_PROTOS else spec["proto"]), _addr_text(w, spec["src"], platform), _port_text(w, spec["sport"]),
                _addr_text(w, spec["dst"], platform), _port_text(w, spec["dport"])] + spec["flags"] + ([spec["log"]] if spec["log"] else [])
        body = T.join(toks)
    if seq is not None:
        return T.num(seq) + " " + body
    return body


def line_rule(w, spec, seq=0):
    if spec["kind"] == "remark":
        return None
    return Rule(spec["act"], (w.proto(spec["proto"]) if spec["proto"] in NUMERIC_PROTOS else tb.PROTO[spec["proto"]]), _addr_pred(w, spec["src"]), _addr_pred(w, spec["dst"]),
                _port_pred(w, spec["sport"]), _port_pred(w, spec["dport"]), spec["flags"], seq, [spec["log"]] if spec["log"] else [])


def acl_text(w, specs, platform, name="A1", seqs=None, indent="  "):
    head = ("ip access-list extended " if platform == "ios" else "ip access-list ") + name
    txt = head
    for i, s in enumerate(specs):
        txt = txt + "\n" + indent + line_text(w, s, platform, None if seqs is None else seqs[i])
    return txt


def attach_groups(w, acl):
    """give every ACE that references an address group its member addresses (as functions.acls() would)"""
    from cisco_acl import Ace
    def walk(items):
        for it in items:
            if type(it) is Ace or it.__class__.__name__ == "Ace":
                for addr in (it.srcaddr, it.dstaddr):
                    if addr.type == "addrgroup":
                        addr.items = w.group_lines(addr.addrgroup)
            elif hasattr(it, "items") and it.__class__.__name__ == "AceGroup":
                walk(it.items)
    walk(acl.items)


X24 = ("w", "X", "0.0.0.255")


def reader_groups(w):
    return {name: w.group_members(name) for name in w.groups}


CONV_TEMPLATES = {
    # multi-port eq entries (split into adjacent single-port entries on NX-OS)
    "multi": [A("permit", "tcp", src=X24, dport=("eq", ["p", "q"])), R("note"), A("deny", "tcp", dport=("eq", ["q"])),
              A("permit", "udp", sport=("eq", ["p", "p2"]), dst=("h", "Y")), A("deny", "ip")],
    # multi-port eq entries inside blocks made by group_by, each block holding a heading and a plain remark
    "grouped-multi": [R("= g1"), A("permit", "tcp", src=X24, dport=("eq", ["p", "q"])), R("note in g1"), A("deny", "tcp", dport=("eq", ["q"])),
                      R("= g2"), R("note in g2"), A("permit", "udp", sport=("eq", ["p", "p2"]), dst=("h", "Y")), A("deny", "ip")],
    # address groups inside blocks made by group_by
    "grouped-ag": [R("= g1"), A("permit", src=X24), A("permit", src=("g", "G1")), R("= g2"), A("deny", src=("g", "G2")), A("deny", "ip")],
    # groups on the destination side and on both sides with different members
    "dst-ag": [A("permit", "tcp", dst=("g", "G1"), dport=("eq", ["q"])), A("permit", src=("g", "G2"), dst=("g", "G1")), R("note"),
               A("deny", src=("h", "Y"), dst=("g", "G2")), A("permit", "ip")],
}
TEMPLATES = {
    # nested / duplicate / disjoint addresses
    "nest": [A("permit", src=X24), A("permit", src=("h", "Xh")), A("deny", src=("h", "Y")), A("permit", src=("h", "Xh")),
             A("deny", src=X24), A("permit")],
    # ports and protocols
    "port": [A("permit", "tcp", dport=("range", ["p", "p2"])), A("permit", "tcp", dport=("eq", ["q"])),
             A("deny", "tcp", dport=("eq", ["q"])), A("permit", "udp", dport=("eq", ["q"])), A("permit", "tcp", src=("h", "Y"), dport=("eq", ["q"])),
             A("permit", "ip")],
    # IOS only: a multi-port eq entry leaving a gap above single-port entries that may fall into the gap
    "port-gap": [A("permit", "tcp", dport=("eq", ["p", "p2"])), A("permit", "tcp", dport=("eq", ["q"])), A("deny", "tcp", dport=("range", ["p", "p2"])),
                 A("permit", "tcp", dport=("eq", ["p"])), A("deny", "ip")],
    # protocols written as numbers that have no keyword (two free numbers, equal or not), nested addresses
    "numproto": [A("permit", "n1", src=X24), A("permit", "n2", src=("h", "Xh")), A("permit", "n1", src=("h", "Xh")), A("deny", "n2"),
                 A("permit", "tcp", src=("h", "Xh")), A("deny", "n1", src=X24), A("permit", "ip")],
    # remarks, headings, log keyword, flags
    "mixed": [R("= g1, first"), A("permit", src=X24), R("note"), A("permit", src=("h", "Xh"), log="log"), R("= g2"),
              A("deny", "tcp", dst=("h", "Y"), flags=["ack"]), A("deny", "tcp", dst=("h", "Y"), flags=["ack", "syn"]), A("deny", "ip")],
    # mixed actions with exact duplicates: a shading deny above a permit that has a duplicate further down (and the mirror)
    "mixdup": [A("deny", src=X24), A("permit", "tcp", dport=("eq", ["q"])), A("deny", src=("h", "Xh")), A("permit", "tcp", dport=("eq", ["q"])),
               A("permit", src=("h", "Y")), A("deny", src=("h", "Xh")), A("permit", src=("h", "Y"))],
    # non-contiguous wildcards
    "ncw": [A("permit", src=("w", "X", "0.0.1.3")), A("permit", src=("w", "X", "0.0.0.3")), A("permit", src=("h", "X")),
            A("deny", src=("w", "Y", "0.0.1.3")), A("permit", src=("w", "X", "0.0.1.3"))],
    # address groups with members
    "group": [A("permit", src=("g", "G1")), A("permit", src=("h", "Xh")), A("permit", src=("h", "Y")), A("deny", src=("g", "G2")),
              A("permit", src=("g", "G2")), A("permit", src=("g", "G2"), dst=("g", "G1")), A("permit", dst=("g", "G2"))],
}


def ios_only(specs):
    """templates with a multi-port eq/neq entry exist on IOS only"""
    return any(s["kind"] == "ace" and any(d is not None and d[0] in ("eq", "neq") and len(d[1]) > 1 for d in (s["sport"], s["dport"])) for s in specs)
