"""C17 - Any sequence of public operations keeps an ACL consistent with a reference model."""
import itertools
import random

from symx.core import V, Or_, And_, Not_, Iff_, Xor_
from symx import text as T
from oracle.packet import Pkt, decision, Rule
from oracle import reader as rd
from . import aclgen as AG
from .common import Spec, Claims

PROPERTY = "C17"
BOUNDS = ("3 seed ACLs (flat with nested/duplicate addresses, grouped by '= ' with remarks/flags/log, address groups + a multi-port eq "
          "entry) of 4-6 lines with symbolic addresses/ports; alphabet of 17 operations (platform nxos/ios, port_nr, protocol_nr, "
          "resequence(10,10), resequence(0), group, ungroup, reverse, pop, insert, copy, export/import, re-parse, delete_shadow, "
          "ungroup_ports, sort); ALL sequences of length <=2 (quick) / <=3 on a seeded sample of 600 (thorough).  After every step: re-parse "
          "fixpoint, first-match decision vs the reference model for every packet, and the same operation applied to a freshly parsed "
          "rendering of the previous state gives the same text (history independence).")
ASSUMPTIONS = ["histories are enumerated (structure); the solver covers addresses, ports and packets",
               "sort(): the model predicts the order only while the numbers given by the last resequence(10, 10) are intact (distinct, "
               "no line added or split since); sorting an ACL without such numbers is checked for re-parse fixpoint and "
               "history independence only - the library documents no order for unnumbered entries",
               "random longer histories are not used: sampling is not this technique's deciding step"]

SEEDS = {
    "flat": [AG.A("permit", src=AG.X24), AG.A("permit", "tcp", src=("h", "Xh"), dport=("eq", ["q"])), AG.A("deny", src=("h", "Y")),
             AG.A("permit", src=("h", "Xh")), AG.A("deny", "ip"), AG.A("deny", "udp", dport=("eq", ["q"]))],
    "grouped": [AG.R("= g1, first"), AG.A("permit", src=AG.X24), AG.R("note"), AG.A("permit", src=("h", "Xh"), log="log"), AG.R("= g2"),
                AG.A("deny", "tcp", dst=("h", "Y"), flags=["ack"])],
    "groups": [AG.A("permit", "tcp", src=("g", "G1"), dport=("eq", ["p", "q"])), AG.A("permit", src=("h", "Xh")),
               AG.A("deny", src=("g", "G2"), dst=("g", "G1")), AG.A("permit", "udp", dport=("eq", ["q"]))],
}
OPS = ["nxos", "ios", "port_nr", "protocol_nr", "reseq", "reseq0", "group", "ungroup", "reverse", "pop", "insert", "copy", "data",
       "reparse", "delete_shadow", "ungroup_ports", "sort"]
NEW_LINE = "deny udp any any eq 53"


class State:
    """reference model: blocks of entries (rule or None for remarks) + the settings that shape parsing"""

    def __init__(self, entries, platform, group_by):
        self.blocks = [[e] for e in entries]
        self.platform, self.group_by = platform, group_by
        self.rank = None            # id(first entry of a block) -> position given by the last resequence(10, 10), while it is valid
        self.order_known = True     # False once an ACL without distinct numbers was sorted (that order is not specified)

    def rules(self):
        return [e for b in self.blocks for e in b if type(e) is Rule]


def _kwargs(acl):
    return dict(platform=acl.platform, group_by=acl.group_by, port_nr=acl.port_nr, protocol_nr=acl.protocol_nr)


def _apply(acl, op, w):
    """apply one public operation; returns the (possibly new) ACL object"""
    from cisco_acl import Acl, Ace
    if op == "nxos":
        acl.platform = "nxos"
    elif op == "ios":
        acl.platform = "ios"
    elif op == "port_nr":
        acl.port_nr = not acl.port_nr
    elif op == "protocol_nr":
        acl.protocol_nr = not acl.protocol_nr
    elif op == "reseq":
        acl.resequence(10, 10)
    elif op == "reseq0":
        acl.resequence(0)
    elif op == "group":
        acl.group("= ")
    elif op == "ungroup":
        acl.ungroup()
    elif op == "reverse":
        acl.reverse()
    elif op == "pop":
        acl.pop()
    elif op == "insert":
        acl.insert(0, Ace(NEW_LINE, platform=acl.platform, port_nr=acl.port_nr, protocol_nr=acl.protocol_nr))
    elif op == "copy":
        acl = acl.copy()
    elif op == "data":
        acl = Acl(**acl.data())
    elif op == "reparse":
        kw = _kwargs(acl)
        acl = Acl(acl.line, **kw)
        AG.attach_groups(w, acl)
    elif op == "delete_shadow":
        acl.delete_shadow()
    elif op == "ungroup_ports":
        acl.ungroup_ports()
    elif op == "sort":
        acl.sort()
    return acl


def _model(state, op, new_rule, w=None):
    """reference model of each operation on the block list; meaning-preserving operations leave it alone"""
    if op in ("nxos", "ungroup_ports") and w is not None:
        # a multi-port entry becomes adjacent single-port entries in place
        out = []
        for b in state.blocks:
            parts = [x for e in b for x in (_split(w, e) if type(e) is Rule else [e])]
            if state.group_by:
                out.append(parts)                       # inside a block of a grouped ACL
            else:
                out += [[x] for x in parts]             # flat ACL: every entry is a top-level item of its own
        state.blocks = out
    if op == "group" or (op in ("reparse", "copy", "data") and state.group_by):
        # copy()/Acl(**data())/re-parsing build the ACL again and, with group_by set, form the blocks again from the flat
        # line order: a plain entry standing after a block (insert + reverse) joins that block
        keep_gb = state.group_by
        blocks, cur = [], []
        flat = [e for b in state.blocks for e in b]
        heads = 0
        for e in flat:
            if type(e) is tuple and e[0] == "heading":
                if cur:
                    blocks.append(cur)
                cur = [e]
                heads += 1
            else:
                cur.append(e)
        if cur:
            blocks.append(cur)
        if op == "group" or [len(b) for b in blocks] != [len(b) for b in state.blocks]:
            state.blocks = blocks
            state.rank = None if op != "group" else state.rank
        state.group_by = "= " if op == "group" else keep_gb
    elif op == "ungroup":
        state.blocks = [[e] for b in state.blocks for e in b]
        state.group_by = ""
    elif op == "reverse":
        state.blocks.reverse()
    elif op == "pop":
        state.blocks.pop()
    elif op == "insert":
        state.blocks.insert(0, [new_rule])
    elif op in ("nxos", "ios"):
        state.platform = op
    # numbering: resequence(10, 10) gives every line a distinct number in the current order; sort() restores that order as
    # long as no operation added unnumbered lines, copies sharing a number, or new blocks (blocks made by group() carry no
    # number: KNOWN-FINDING of C15)
    if op == "reseq":
        state.rank = {id(b): k for k, b in enumerate(state.blocks)}
        state.rank_blocks = list(state.blocks)
    elif op in ("reseq0", "insert", "group", "ungroup", "ungroup_ports", "nxos", "ios"):
        state.rank = None
    if op == "sort":
        if state.rank is not None and all(id(b) in state.rank for b in state.blocks):
            state.blocks.sort(key=lambda b: state.rank[id(b)])
        else:
            state.order_known = False


def _text_ambiguous(state):
    if not state.group_by:
        return False
    seen_block = False
    for b in state.blocks:
        head = type(b[0]) is tuple and b[0][0] == "heading"
        if head:
            seen_block = True
        elif seen_block:
            return True
    return False


def _entries(w, specs):
    out = []
    for s in specs:
        if s["kind"] == "remark":
            out.append(("heading", s["text"]) if s["text"].startswith("= ") else "remark")
        else:
            r = AG.line_rule(w, s)
            r.spec = s
            out.append(r)
    return out


def _split(w, rule):
    """the single-port entries a multi-port eq/neq entry becomes on NX-OS / under ungroup_ports (source-major order)"""
    s = getattr(rule, "spec", None)
    if s is None:
        return [rule]
    sides = []
    for d in (s["sport"], s["dport"]):
        sides.append([d] if d is None or d[0] not in ("eq", "neq") or len(d[1]) < 2 else [(d[0], [n]) for n in d[1]])
    if len(sides[0]) * len(sides[1]) == 1:
        return [rule]
    out = []
    for sp in sides[0]:
        for dp in sides[1]:
            s2 = dict(s, sport=sp, dport=dp)
            r = AG.line_rule(w, s2)
            r.spec = s2
            out.append(r)
    return out


def h_history(ctx):
    from cisco_acl import Acl
    seed = ctx.pick("seed", sorted(SEEDS))
    hist = ctx.pick("history", HISTORIES)
    w = AG.World(ctx)
    ctx.assume(V(w.p) < V(w.q))
    if "port_nr" in hist:
        # rendering a free port by name walks the name table (one path per entry): keep the free ports off the table
        from .acegen import NAME_NUMBERS
        ctx.assume(And_([And_(V(w.p) != n, V(w.q) != n, V(w.p) + 2 != n) for n in NAME_NUMBERS]))
    specs = SEEDS[seed]
    gb = "= " if seed == "grouped" else ""
    acl = Acl(AG.acl_text(w, specs, "ios"), platform="ios", group_by=gb, port_nr=True)
    AG.attach_groups(w, acl)
    state = State(_entries(w, specs), "ios", gb)
    if gb:
        _model(state, "group", None)
    pkt = Pkt(ctx)
    new_rule = Rule("deny", 17, True, True, True, (lambda f: V(f) == 53))
    ambiguous = False
    for k, op in enumerate(hist):
        if op == "pop" and len(state.blocks) <= 1:
            return None
        prev_text, prev_kw = acl.line, _kwargs(acl)
        # the rendered text determines the object only while no plain entry stands after a block of a grouped ACL (such a
        # state is reachable by insert + reverse, not by parsing): the fresh-parse comparison is made only where it is sound
        ambiguous = ambiguous or _text_ambiguous(state)
        try:
            acl = _apply(acl, op, w)
        except ValueError as e:
            ctx.observe(f"s{k}", "ValueError")
            ctx.claim(f"s{k}:{op}:refused", True)           # none of these operations may fail on a consistent ACL
            return None
        _model(state, op, new_rule, w)
        ctx.observe(f"s{k}", acl.line)
        cl = Claims(ctx)
        # (1) the rendered text parses back to itself
        kw = _kwargs(acl)
        again = Acl(acl.line, **kw)
        cl(f"s{k}:{op}:reparse-fixpoint", Not_(again.line == acl.line))
        # (2) the text denotes the rule list the model predicts
        try:
            parsed = rd.read_acl(acl.line, acl.platform, AG.reader_groups(w))
            got_rules = [it[2]["rule"] for it in parsed["items"] if it[0] == "ace"]
            if state.order_known:
                cl(f"s{k}:{op}:decision-as-model", V(decision(got_rules, pkt)) != V(decision(state.rules(), pkt)))

            cl(f"s{k}:{op}:platform", acl.platform != state.platform)
        except rd.Reject as e:
            ctx.observe("reject", str(e))
            cl(f"s{k}:{op}:rendered-text-valid", True)
        # (3) history independence: the same operation on a freshly parsed rendering of the previous state
        if op not in ("copy", "data", "reparse") and not ambiguous:
            fresh = Acl(prev_text, **prev_kw)
            AG.attach_groups(w, fresh)
            fresh = _apply(fresh, op, w)
            cl(f"s{k}:{op}:history-independent", Not_(fresh.line == acl.line))
            if op in ("delete_shadow", "ungroup_ports"):
                # which entries are removed / split must not depend on the names-as-numbers switches set earlier
                plain = Acl(prev_text, **dict(prev_kw, port_nr=True, protocol_nr=False))
                AG.attach_groups(w, plain)
                plain = _apply(plain, op, w)
                cl(f"s{k}:{op}:independent-of-switches", len(plain.line.split("\n")) != len(acl.line.split("\n")))
        cl.done()
    ctx.reach("history")
    return None


HISTORIES = []


def specs(tier, seed, concrete=False):
    global HISTORIES
    import json
    import os
    rnd = random.Random(seed)
    HISTORIES = [[a] for a in OPS] + [[a, b] for a in OPS for b in OPS]
    if tier != "quick":
        triples = [list(t) for t in itertools.product(OPS, repeat=3)]
        rnd.shuffle(triples)
        HISTORIES += triples[:600]
    if os.environ.get("VERIF_C17_HIST"):            # development aid: explore the given histories only
        HISTORIES = json.loads(os.environ["VERIF_C17_HIST"])
    return [Spec("history", h_history, [{"seed": s, "history": h} for s in sorted(SEEDS) for h in HISTORIES], goals=["history"],
                 max_paths=3000, describe="operation histories vs reference model, re-parse fixpoint, history independence")]
