"""C01 - Parsing an ACE keeps its meaning (fields and re-rendered text)."""
from symx.core import V, Or_, And_, Not_, Iff_, Xor_
from symx import text as T
from symx.covering import covering_array
from oracle.packet import Pkt, ALL
from oracle import reader as rd
from . import acegen as G
from .common import Spec, Claims, member, in_nets

PROPERTY = "C01"
BOUNDS = ("ACE grammar dimensions (platform, version table, port_nr, protocol_nr, action, sequence, protocol spelling, "
          "17 address forms per side incl. 5 non-contiguous/edge wildcards and aligned/unaligned prefixes, 11 port forms per "
          "side, 10 TCP flag sets, 3 log forms, 4 whitespace styles) combined by a 2-way (quick) / 3-way (thorough) covering "
          "array generated from VERIF_SEED; per skeleton the sequence number, both base addresses, all port operands, a numeric "
          "protocol and the probe packet are symbolic over their full ranges, except: eq lists carry o0<o1<o2, range width <= 2, "
          "neq/gt/lt operands live in 1..8 of a universe shrunk to 1..8, free ports avoid named numbers when names are rendered; "
          "standard ACEs: 5 forms x log; every port KEYWORD of all 16 (platform, version, tcp/udp) tables as source and "
          "destination port x {eq, range} x trailing {none, log, ack log} x port_nr.")
ASSUMPTIONS = ["protocol 0 / 'ip' stands for every IP protocol", "several TCP flag keywords match a packet carrying ANY of them",
               "log keywords do not change the packet set", "port operators only with tcp/udp (other combinations belong to C20)"]


def _rows(tier, seed):
    rows, info = covering_array(G.DIMS, t=2 if tier == "quick" else 3, seed=seed, valid=G.row_valid,
                                candidates=30 if tier == "quick" else 12)
    return rows, info


def h_ace(ctx):
    from cisco_acl import Ace
    row = {k: ctx.pick(k, G.DIMS[k]) for k in sorted(G.DIMS)}
    sk = G.build_ace(ctx, row)
    pkt = Pkt(ctx)
    kw = dict(platform=row["platform"], version=row["version"], port_nr=row["port_nr"], protocol_nr=row["protocol_nr"])
    ace = Ace(sk.text, **kw)
    ctx.reach("parsed")
    ctx.observe("line", ace.line)
    ctx.observe("seq", ace.sequence)
    ctx.observe("types", [ace.srcaddr.type, ace.dstaddr.type])
    cl = Claims(ctx)
    # ---- (a) parsed fields against the skeleton's meaning
    cl("action", ace.action != sk.action)
    cl("sequence", V(ace.sequence) != V(sk.seq))
    cl("protocol-number", V(ace.protocol.number) != V(sk.proto))
    for side, addr, pred, desc, x in (("src", ace.srcaddr, sk.src_p, sk.src, pkt.src), ("dst", ace.dstaddr, sk.dst_p, sk.dst, pkt.dst)):
        if desc[0] == "group":
            cl(side + "-group-name", not (addr.type == "addrgroup" and addr.addrgroup == desc[1]))
            continue
        cl(side + "-address-set", Xor_(in_nets(x, addr.ipnets()), pred(x) if callable(pred) else pred))
    for side, port, pred, desc, p in (("src", ace.srcport, sk.sport_p, sk.sport, pkt.sport), ("dst", ace.dstport, sk.dport_p, sk.dport, pkt.dport)):
        if desc is None:
            cl(side + "-port-absent", bool(port.line) or bool(port.ports) if type(port.line) is str else True)
            continue
        cl(side + "-port-operator", port.operator != desc[0])
        cl(side + "-port-set", And_(V(p) <= sk.umax, Xor_(member(p, port.ports), pred(p))))
    cl("flags", list(ace.option.flags) != sk.flags)
    cl("logs", list(ace.option.logs) != sk.logs)
    # ---- (b) the rendered line, read by the independent reader, means the same
    try:
        r = rd.read_ace(ace.line, row["platform"])
    except rd.Reject as e:
        ctx.observe("reject", str(e))
        cl("rendered-text-valid-on-platform", True)
        cl.done()
        return None
    cl("rendered-numerals-in-range", Not_(r["valid"]))
    cl("rendered-action", r["rule"].action != sk.action)
    cl("rendered-sequence", V(r["rule"].seq) != V(sk.seq))
    cl("rendered-meaning", Xor_(r["rule"].matches(pkt), sk.rule.matches(pkt)))
    cl("rendered-logs", list(r["rule"].logs) != sk.logs)
    for side in ("src", "dst"):
        d = getattr(sk, side)
        if d[0] == "group":
            cl("rendered-group-" + side, r["desc"][side] != ("group", d[1]))
    cl.done()
    return None


NAMED_CFG = [(p, v, pr) for p in ("ios", "nxos") for v in ("0", "15.2", "16.9", "9.3") for pr in ("tcp", "udp")]


def h_named(ctx):
    """every port keyword the platform/version table offers, written as source or destination port of an ACE, followed by
    nothing / a log keyword / a flag: the parsed port set is the keyword's number (oracle table), the trailing tokens stay
    options, and the rendered line read independently matches exactly that port"""
    from cisco_acl import Ace
    from cisco_acl.port_name import PortName
    from oracle import tables as tb
    platform, version, proto = ctx.pick("cfg", NAMED_CFG)
    side = ctx.pick("side", ["src", "dst"])
    op = ctx.pick("op", ["eq", "range"])
    tail = ctx.pick("tail", ["", "log"] + (["ack log"] if proto == "tcp" else []))
    port_nr = ctx.pick("port_nr", [False, True])
    names = sorted(PortName(protocol=proto, platform=platform, version=version).names())
    p = ctx.fresh("p", 1, 65535)
    cl = Claims(ctx)
    for name in names:
        nr = tb.ports(proto).get(name)
        if nr is None:
            cl(f"keyword-known-to-the-oracle[{name}]", True)
            continue
        port = f"eq {name}" if op == "eq" else (f"range {name} 65000" if nr < 65000 else f"range 1 {name}")
        want = (lambda f, nr=nr: V(f) == nr) if op == "eq" else (lambda f, nr=nr: And_(V(f) >= min(nr, 65000 if nr < 65000 else 1), V(f) <= max(nr, 65000 if nr < 65000 else 1)))
        line = f"permit {proto} any {port} any" if side == "src" else f"permit {proto} any any {port}"
        if tail:
            line += " " + tail
        ace = Ace(line, platform=platform, version=version, port_nr=port_nr)
        mine, other = (ace.srcport, ace.dstport) if side == "src" else (ace.dstport, ace.srcport)
        cl(f"port-set[{name}]", Xor_(member(p, mine.ports), want(p)))
        cl(f"other-side-empty[{name}]", bool(other.line))
        cl(f"flags[{name}]", list(ace.option.flags) != [t for t in tail.split() if t == "ack"])
        cl(f"logs[{name}]", list(ace.option.logs) != [t for t in tail.split() if t == "log"])
        try:
            r = rd.read_ace(ace.line, platform)
        except rd.Reject as e:
            ctx.observe("reject", str(e))
            cl(f"rendered-text-valid-on-platform[{name}]", True)
            continue
        got = r["rule"].sport if side == "src" else r["rule"].dport
        cl(f"rendered-port-set[{name}]", Xor_(got(p) if callable(got) else got, want(p)))
    cl.done()
    ctx.reach("named")
    return None


STD_FORMS = ["host", "bare", "wild:0.0.0.255", "wild:0.0.1.3", "any"]


def h_standard(ctx):
    """standard ACEs (IOS): source only"""
    from cisco_acl import Ace
    form = ctx.pick("form", STD_FORMS)
    log = ctx.pick("log", ["", "log"])
    act = ctx.pick("act", ["permit", "deny"])
    seq = ctx.pick("seq", ["none", "sym"])
    pkt = Pkt(ctx)
    toks = []
    sq = 0
    if seq == "sym":
        sq = ctx.fresh("seq", 1, G.SEQ_MAX)
        toks.append(T.num(sq))
    toks.append(act)
    if form == "bare":
        s, v = T.fresh_quad(ctx, "s")
        toks.append(s)
        pred = V(pkt.src) == V(v)
    else:
        t, p, _ = G._addr(ctx, form, "s", "ios")
        toks.append(t)
        pred = p(pkt.src) if callable(p) else p
    if log:
        toks.append(log)
    ace = Ace(T.join(toks), platform="ios")
    ctx.reach("parsed")
    ctx.observe("line", ace.line)
    ctx.observe("type", ace.type)
    cl = Claims(ctx)
    cl("type-standard", ace.type != "standard")
    cl("action", ace.action != act)
    cl("sequence", V(ace.sequence) != V(sq))
    cl("src-address-set", Xor_(in_nets(pkt.src, ace.srcaddr.ipnets()), pred))
    cl("dst-any", not (ace.dstaddr.line == "any"))
    cl("logs", list(ace.option.logs) != ([log] if log else []))
    try:
        r = rd.read_ace(ace.line, "ios", acl_type="standard")
        cl("rendered-meaning", Xor_(r["rule"].matches(pkt), pred))
        cl("rendered-action", r["rule"].action != act)
        cl("rendered-sequence", V(r["rule"].seq) != V(sq))
        cl("rendered-numerals-in-range", Not_(r["valid"]))
    except rd.Reject as e:
        ctx.observe("reject", str(e))
        cl("rendered-text-valid-on-platform", True)
    cl.done()
    return None


def specs(tier, seed, concrete=False):
    rows, info = ([], {}) if concrete else _rows(tier, seed)       # replays pin every dimension by value: no rows needed
    global BOUNDS_INFO
    BOUNDS_INFO = info
    return [
        Spec("ace", h_ace, rows, goals=["parsed"], describe=f"extended ACE skeletons, covering array {info}"),
        Spec("standard", h_standard, [{"form": f} for f in STD_FORMS], goals=["parsed"], describe="standard ACEs on IOS"),
        Spec("named", h_named, [{"cfg": list(c), "side": sd} for c in NAMED_CFG for sd in ("src", "dst")], goals=["named"],
             describe="every port keyword of every platform/version table as a source/destination port, with trailing options"),
    ]
