"""C20 - Arbitrary text only ever yields an object or a documented value/type error."""
import itertools
import random

from symx.core import V, Or_, And_, Not_
from symx import text as T
from .common import Spec, Claims

PROPERTY = "C20"
BOUNDS = ("token soups over a 30-word vocabulary (keywords, operators, names, numerals, dotted quads, prefixes, truncated quads, empty "
          "and whitespace tokens): ALL soups of <=2 tokens and a seeded sample of 150+150 (quick) / 500+500 (thorough) soups of 3 and 4 tokens (5-token soups were tried in the thorough tier: the run did not finish within 3 600 s and they were dropped), plus every "
          "truncation and 3 seeded permutations of 12 valid lines, given to 11 constructors on ios/nxos (Port/Protocol also asa) and - "
          "wrapped into sections - to acls/aces/addrgroups; every numeral is SYMBOLIC over [0, 2^40] (out-of-range octets, ports, "
          "sequence numbers all at once) except numerals that size a loop: operands of range (width <= 2), of gt/lt/neq (0..9 in a port "
          "universe shrunk to 1..8), prefix lengths and max_ncwb (structural).")
ASSUMPTIONS = ["only tokens and numerals are symbolic, not characters; the regex engine runs on representative strings",
               "non-termination is not decidable here: every explored path terminated (this is the weakest claim of the twenty)",
               "objects that are empty by default (Acl(''), AceGroup(''), Port(''), Protocol(''), Option('')) render text their own "
               "constructor rejects or normalises: listed KNOWN-FINDINGS per class"]

VOCAB = ["permit", "deny", "remark", "ip", "tcp", "icmp", "any", "host", "eq", "neq", "gt", "range", "log", "ack", "object-group", "G1",
         "group-object", "addrgroup", "description", "lt",
         "www", "N", "Q", "Q/24", "Q/N", "N.N.N", "0.0.0.255", "", "  ", "10"]
VALID = ["10 permit tcp host Q eq N Q 0.0.0.255 range N N ack log", "deny ip any any", "remark some text", "permit udp any gt N any",
         "permit ip object-group G1 any", "20 remark = head", "permit icmp Q/24 any", "deny tcp any neq N host Q",
         "permit 47 any host Q", "Q 0.0.1.3", "host Q", "eq www N"]
CLASSES = ["Ace", "Remark", "AceGroup", "Acl", "Address", "AddressAg", "AddrGroup", "Port", "Protocol", "Option", "Wildcard"]
FUNCS = ["acls", "aces", "addrgroups"]


def _render(ctx, toks):
    """tokens -> text with symbolic numerals; returns (text, shrunk?)"""
    out, k, shrunk = [], 0, False
    prev, prev2 = "", ""
    base = None
    for t in toks:
        pieces = []
        i = 0
        while i < len(t):
            ch = t[i]
            if ch in "NQ":
                k += 1
                if ch == "Q" and (prev == "Q" or prev.count(".") == 3) and t == "Q":
                    # the mask of an address is structure (it drives list shapes): a few concrete masks incl. invalid ones
                    pieces.append(ctx.pick(f"mask{k}", ["0.0.0.255", "0.0.1.3", "255.255.255.0", "300.1.1.1", "0.0.0.0"]))
                elif ch == "Q":
                    octs = [ctx.fresh(f"n{k}_{j}", 0, 1 << 40) if j == 3 else ctx.fresh(f"n{k}_{j}", 0, 255) for j in range(4)]
                    pieces.append(T.quad_of_octets(octs))
                elif prev in ("gt", "lt", "neq") and t == "N":
                    if ctx.symbolic:
                        from symx import shims
                        shims.PORT_MAX = 8
                    shrunk = True
                    pieces.append(T.num(ctx.fresh(f"n{k}", 0, 9)))
                elif (prev == "range" or prev2 == "range") and t == "N":
                    if base is None or prev == "range":
                        base = ctx.fresh(f"n{k}", 0, 70000)
                        pieces.append(T.num(base))
                    else:
                        pieces.append(T.num(base + ctx.pick(f"w{k}", [0, 2])))
                elif "/" in t and i > 0:
                    pieces.append(str(ctx.pick(f"len{k}", [0, 24, 32, 33])))
                else:
                    pieces.append(T.num(ctx.fresh(f"n{k}", 0, 1 << 40)))
            else:
                pieces.append(ch)
            i += 1
        tok = None
        for p in pieces:
            tok = p if tok is None else tok + p
        out.append(tok if tok is not None else "")
        prev2, prev = prev, t
    text = None
    for t in out:
        text = t if text is None else text + " " + t
    return (text if text is not None else ""), shrunk


def _construct(cls, text, platform):
    import cisco_acl
    from cisco_acl.wildcard import Wildcard
    K = Wildcard if cls == "Wildcard" else getattr(cisco_acl, cls)
    if cls in ("Port",):
        return K(text, platform=platform, protocol="tcp", port_nr=True)
    if cls in ("Ace", "AceGroup", "Acl"):
        return K(text, platform=platform, port_nr=True)
    return K(text, platform=platform)


def h_ctor(ctx):
    cls = ctx.pick("class", CLASSES)
    platform = ctx.pick("platform", ["ios", "nxos"])
    toks = ctx.pick("soup", SOUPS)
    text, shrunk = _render(ctx, toks)
    if shrunk:
        ctx.skip_validation()
    if cls == "Acl" and ctx.pick("head", [True, False]):
        text = ("ip access-list extended A\n  " if platform == "ios" else "ip access-list A\n  ") + text
    if cls == "AddrGroup" and ctx.pick("head", [True, False]):
        text = ("object-group network G\n  " if platform == "ios" else "object-group ip address G\n  ") + text
    try:
        obj = _construct(cls, text, platform)
    except (ValueError, TypeError) as e:
        ctx.reach("rejected")
        ctx.observe("outcome", type(e).__name__)
        return None
    ctx.reach("accepted")
    line = obj.line
    ctx.observe("line", line)
    try:
        again = _construct(cls, line, platform)
    except (ValueError, TypeError) as e:
        ctx.observe("reparse", type(e).__name__)
        ctx.claim("rendered-text-accepted-again", True)
        return None
    ctx.observe("line2", again.line)
    ctx.claim("returned-or-documented-error", False)
    return None


def h_func(ctx):
    import cisco_acl
    fn = ctx.pick("func", FUNCS)
    platform = ctx.pick("platform", ["ios", "nxos"])
    toks = ctx.pick("soup", SOUPS)
    text, shrunk = _render(ctx, toks)
    if shrunk:
        ctx.skip_validation()
    layout = ctx.pick("layout", ["bare", "acl-body", "group-body", "indented-first", "comment"])
    ind = " " * ctx.pick("indent", [1, 3])
    if layout == "acl-body":
        cfg = ("ip access-list extended A\n" if platform == "ios" else "ip access-list A\n") + ind + text + "\ninterface Gi1\n" + ind + "ip access-group A in\n"
    elif layout == "group-body":
        cfg = ("object-group network G\n" if platform == "ios" else "object-group ip address G\n") + ind + text + "\n"
    elif layout == "indented-first":
        cfg = ind + text + "\nhostname R1\n"
    elif layout == "comment":
        cfg = "!\n! " + text + "\n" + text + "\n" + ind + text + "\n"
    else:
        cfg = text + "\n"
    try:
        out = getattr(cisco_acl, fn)(cfg, platform=platform, port_nr=True)
    except (ValueError, TypeError) as e:
        ctx.reach("rejected")
        ctx.observe("outcome", type(e).__name__)
        return None
    ctx.reach("returned")
    ctx.observe("n", len(out))
    for o in out:
        ctx.observe("line", o.line)
    ctx.claim("returned-or-documented-error", False)
    return None


SOUPS = []


def _soups(tier, seed):
    rnd = random.Random(seed)
    out = [[]] + [[a] for a in VOCAB] + [[a, b] for a in VOCAB for b in VOCAB]
    for n, cnt in ((3, 150), (4, 150)) if tier == "quick" else ((3, 500), (4, 500)):
        for _ in range(cnt):
            out.append([rnd.choice(VOCAB) for _ in range(n)])
    for line in VALID:
        t = line.split()
        for k in range(1, len(t) + 1):
            out.append(t[:k])
        for _ in range(3):
            p = list(t)
            rnd.shuffle(p)
            out.append(p)
    out = [["deny", "ip", "any", "any"]] + out
    seen, res = set(), []
    for s in out:
        if tuple(s) not in seen:
            seen.add(tuple(s))
            res.append(s)
    return res


def specs(tier, seed, concrete=False):
    global SOUPS
    SOUPS = _soups(tier, seed)
    chunk = 8
    groups = [SOUPS[i:i + chunk] for i in range(0, len(SOUPS), chunk)]
    # shards pin the class and a soup; soups are many, so one shard = one (class, soup)
    ctor = [{"class": c, "soup": s} for c in CLASSES for s in SOUPS]
    func = [{"func": f, "soup": s} for f in FUNCS for s in SOUPS[::3]]
    return [
        Spec("ctor", h_ctor, ctor, goals=["rejected", "accepted"], max_paths=3000,
             describe="every constructor on token soups: only ValueError/TypeError, rendered text accepted again"),
        Spec("func", h_func, func, goals=["rejected", "returned"], max_paths=3000,
             describe="acls/aces/addrgroups on soups wrapped into sections with odd indentation and comments"),
    ]
