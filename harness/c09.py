"""C09 - Port/protocol names are pure spelling of their standard numbers."""
from symx.core import V, Or_, And_, Not_, Iff_, Xor_
from symx import text as T
from oracle import tables as tb
from .common import Spec, Claims

PROPERTY = "C09"
BOUNDS = ("finite and complete: platforms {asa, ios, nxos} x version tables {default, 15.2, 16.9, 9.3} x {tcp, udp}; rendering: "
          "the port number is symbolic over 1..65535 (one path per table entry + 'no name'), protocol number symbolic over 0..255; "
          "names: every keyword of the oracle's transcription and of the library's own tables, one by one")
ASSUMPTIONS = ["keyword -> number mapping of the oracle is the IANA/Cisco documented one (hand transcription in oracle/tables.py)"]

CONFIGS = [(p, v, pr) for p in tb.PLATFORMS for v in tb.VERSIONS for pr in ("tcp", "udp")]


def _lib_names():
    from cisco_acl import port_name as pn
    names = set()
    for k, v in vars(pn).items():
        if k.startswith(("TCP_NAME_PORT", "UDP_NAME_PORT")) and isinstance(v, dict):
            names |= set(v)
    return sorted(names)


def h_render(ctx):
    """number -> text -> number for every number, names-as-numbers switch off and on"""
    from cisco_acl import Port
    platform, version, proto = ctx.pick("cfg", CONFIGS)
    n = ctx.fresh("n", 1, 65535)
    kw = dict(platform=platform, version=version, protocol=proto)
    p_name = Port("eq " + T.num(n), port_nr=False, **kw)
    text = p_name.line
    ctx.observe("text", text)
    tok = text.split()[1]
    cl = Claims(ctx)
    if tok.isdigit():
        ctx.reach("rendered-number")
        cl("rendered-number-is-n", V(T.toint(tok)) != V(n))
        # a number is rendered as such only if the oracle knows no keyword ... (not required) - but never a wrong one
    else:
        ctx.reach("rendered-name")
        want = tb.ports(proto).get(tok)
        cl("rendered-name-is-standard", True if want is None else V(n) != want)
    back = Port(text, port_nr=False, **kw)
    cl("parse-back-same-number", Or_(len(back.items) != 1, V(back.items[0]) != V(n)))
    cl("parse-back-same-text", Not_(back.line == text))
    p_nr = Port(text, port_nr=True, **kw)
    ctx.observe("numeric", p_nr.line)
    cl("switch-keeps-number", Or_(len(p_nr.items) != 1, V(p_nr.items[0]) != V(n)))
    cl("switch-on-renders-number", Not_(p_nr.line == "eq " + T.num(n)))
    p_nr.port_nr = False
    cl("switch-back-same-text", Not_(p_nr.line == text))
    cl.done()
    return None


def h_names(ctx):
    """every keyword: accepted => standard number; rendered name is accepted back; never a reserved word"""
    from cisco_acl import Port
    platform, version, proto = ctx.pick("cfg", CONFIGS)
    universe = sorted(set(tb.TCP) | set(tb.UDP) | set(_lib_names()))
    name = ctx.pick("name", universe)
    kw = dict(platform=platform, version=version, protocol=proto)
    cl = Claims(ctx)
    cl("name-not-reserved", name in tb.RESERVED)
    try:
        p = Port("eq " + name, port_nr=False, **kw)
    except ValueError:
        ctx.reach("rejected")
        ctx.observe("outcome", "ValueError")
        cl.done()
        return None
    ctx.reach("accepted")
    ctx.observe("items", list(p.items))
    ctx.observe("line", p.line)
    want = tb.ports(proto).get(name)
    cl("accepted-name-is-standard", want is None or list(p.items) != [want])
    back = Port(p.line, port_nr=False, **kw)       # the rendered alias must be accepted on the same platform
    cl("alias-accepted-back", list(back.items) != list(p.items))
    cl("numeric-switch-keeps-number", list(Port("eq " + name, port_nr=True, **kw).items) != list(p.items))
    cl.done()
    return None


def h_split(ctx):
    """every keyword known to any table is split off as a destination port, not as an option"""
    from cisco_acl import parsers, Ace
    from cisco_acl.port_name import PortName
    universe = sorted(set(_lib_names()) | set(tb.TCP) | set(tb.UDP))
    name = ctx.pick("name", universe)
    op = ctx.pick("op", ["eq", "neq", "range"])
    tail = ctx.pick("tail", ["log", "ack log", ""])
    operands = name if op != "range" else "1 " + name
    r = parsers._parse_dstport_option((op + " " + operands + " " + tail).strip())
    ctx.observe("split", [r["dstport"], r["option"]])
    cl = Claims(ctx)
    cl("split-as-port", not (r["dstport"] == op + " " + operands and r["option"] == tail))
    # through the whole ACE parser on every configuration that accepts the keyword
    n_ok = 0
    for platform, version, proto in CONFIGS:
        if platform == "asa":
            continue
        if name not in PortName(protocol=proto, platform=platform, version=version).names():
            continue
        if tail.startswith("ack") and proto != "tcp":
            continue
        line = f"permit {proto} any any {op} {operands} {tail}".strip()
        ace = Ace(line, platform=platform, version=version)
        n_ok += 1
        cl(f"ace-dstport[{platform},{version},{proto}]", not (ace.dstport.operator == op and len(ace.dstport.items) == (2 if op == "range" else 1)))
        cl(f"ace-option[{platform},{version},{proto}]", not (ace.option.line == tail))
    ctx.observe("configs", n_ok)
    cl.done()
    ctx.reach("split")
    return None


PROTO_CFG = [(p, nr) for p in tb.PLATFORMS for nr in (False, True)]


def h_protocol(ctx):
    """protocol number 0..255 symbolic: number -> text -> number; names denote standard numbers; switch changes text only"""
    from cisco_acl import Protocol
    platform, pnr = ctx.pick("cfg", PROTO_CFG)
    n = ctx.fresh("n", 0, 255)
    p = Protocol(T.num(n), platform=platform, protocol_nr=pnr)
    text = p.line
    ctx.observe("text", text)
    cl = Claims(ctx)
    cl("number-kept", V(p.number) != V(n))
    if text.isdigit():
        ctx.reach("rendered-number")
        cl("rendered-number-is-n", V(T.toint(text)) != V(n))
    else:
        ctx.reach("rendered-name")
        want = tb.PROTO.get(text)
        cl("rendered-name-is-standard", True if want is None else V(n) != want)
        cl("rendered-name-despite-switch", pnr)
    back = Protocol(text, platform=platform, protocol_nr=pnr)
    cl("parse-back-same-number", V(back.number) != V(n))
    cl("parse-back-same-text", Not_(back.line == text))
    other = Protocol(text, platform=platform, protocol_nr=not pnr)
    cl("switch-keeps-number", V(other.number) != V(n))
    cl.done()
    return None


def h_protocol_names(ctx):
    from cisco_acl import Protocol, protocol as pm
    universe = sorted(set(tb.PROTO) | set(pm.PROTOCOLS_ANY))
    name = ctx.pick("name", universe)
    platform, pnr = ctx.pick("cfg", PROTO_CFG)
    cl = Claims(ctx)
    cl("name-not-reserved", name in tb.RESERVED)
    try:
        p = Protocol(name, platform=platform, protocol_nr=pnr)
    except ValueError:
        ctx.reach("rejected")
        ctx.observe("outcome", "ValueError")
        cl.done()
        return None
    ctx.reach("accepted")
    ctx.observe("number", p.number)
    ctx.observe("line", p.line)
    want = tb.PROTO.get(name)
    cl("accepted-name-is-standard", want is None or p.number != want)
    back = Protocol(p.line, platform=platform, protocol_nr=pnr)
    cl("rendered-accepted-back", back.number != p.number)
    cl.done()
    return None


def specs(tier, seed, concrete=False):
    return [
        Spec("render", h_render, [{"cfg": list(c)} for c in CONFIGS], goals=["rendered-number", "rendered-name"],
             describe="Port: symbolic number rendered by name/number and parsed back, all tables"),
        Spec("names", h_names, [{"cfg": list(c)} for c in CONFIGS], goals=["accepted", "rejected"],
             describe="Port: every keyword on every table"),
        Spec("split", h_split, [{"op": o, "tail": t} for o in ("eq", "neq", "range") for t in ("log", "ack log", "")],
             goals=["split"], describe="dstport/option splitter and whole-ACE parse for every keyword"),
        Spec("protocol", h_protocol, [{"cfg": list(c)} for c in PROTO_CFG], goals=["rendered-number", "rendered-name"],
             describe="Protocol: symbolic number 0..255"),
        Spec("protocol_names", h_protocol_names, [{"cfg": list(c)} for c in PROTO_CFG], goals=["accepted"],
             describe="Protocol: every keyword"),
    ]
