"""C15 - Grouping, ungrouping and sorting never lose, duplicate or split entries; TCAM estimate."""
import itertools
import random

from symx.core import V, Or_, And_, Not_, Iff_, Xor_
from symx import text as T
from .common import Spec, Claims

PROPERTY = "C15"
BOUNDS = ("ACLs of 1..5 (quick) / 1..6 (thorough) lines over {heading 'a, ..', heading 'b', repeated heading, a DISTINCT heading sharing the text before the comma, plain remark, ACE}: every "
          "placement (none before the first ACE, heading-only blocks, plain remarks inside, repeated heading text), prefixes '= ' and "
          "'=== ', both platforms; sorting: numbering by resequence with SYMBOLIC start/step (group then resequence) or concrete "
          "(start, step) pairs incl. numbers crossing 100 (resequence then group), all permutations of <=4 (quick) / 5 (thorough) "
          "top-level items applied in place; TCAM: address groups with 0..3 members per side.")
ASSUMPTIONS = ["mostly structural; the solver covers start/step", "permutations are applied in place to acl.items (as list.sort/shuffle do)"]

LINES = {"Ha": "remark {P}a, first block", "Hb": "remark {P}b", "Hd": "remark {P}a, first block", "Hc": "remark {P}a, other block",
         "R": "remark note {i}",
         "A": "permit tcp host 10.0.{i}.1 any eq {i}", "D": "deny ip any any"}


def _shapes(tier):
    n = 5 if tier == "quick" else 6
    out = []
    for k in range(1, n + 1):
        for combo in itertools.product(["Ha", "Hb", "Hd", "Hc", "R", "A"], repeat=k):
            if combo.count("Hd") > 1 or combo.count("Ha") > 1 or combo.count("Hb") > 1 or combo.count("Hc") > 1:
                continue
            if ("Hd" in combo or "Hc" in combo) and "Ha" not in combo:
                continue
            if "Hd" in combo and "Hc" in combo:
                continue
            if k >= 5 and (combo.count("R") > 2 or combo.count("A") > 3):
                continue
            out.append(list(combo))
    return out


def _text(shape, prefix, platform):
    head = "ip access-list extended A" if platform == "ios" else "ip access-list A"
    lines = [LINES[k].format(P=prefix, i=i + 1) for i, k in enumerate(shape)]
    return head + "".join("\n  " + l for l in lines), lines


def _body(acl):
    return [l.strip() for l in acl.line.split("\n")[1:]]


def _count(xs, x):
    return sum(1 for y in xs if y == x)


def h_group(ctx):
    from cisco_acl import Acl
    shape = ctx.pick("shape", SHAPES)
    prefix = ctx.pick("prefix", ["= ", "=== "])
    platform = ctx.pick("platform", ["ios", "nxos"])
    txt, lines = _text(shape, prefix, platform)
    distinct = "Hd" not in shape
    acl = Acl(txt, platform=platform, port_nr=True)
    before = _body(acl)
    acl.group(prefix)
    grouped = _body(acl)
    ctx.observe("grouped", grouped)
    cl = Claims(ctx)
    cl("parsed-all", len(before) != len(shape))
    cl("group:no-entry-lost-or-added", sorted(grouped) != sorted(before))
    if distinct:
        ctx.reach("distinct")
        cl("group:text-unchanged", grouped != before)
    else:
        ctx.reach("repeated-heading")
    # blocks: every AceGroup made by group() starts with its heading (except the head-less leading block)
    for k, it in enumerate(acl.items):
        if it.__class__.__name__ == "AceGroup" and it.items:
            first = it.items[0]
            is_head = first.__class__.__name__ == "Remark" and first.text.startswith(prefix)
            cl(f"block[{k}]-starts-with-heading", (not is_head) and k != 0)
            inner_heads = [x for x in it.items[1:] if x.__class__.__name__ == "Remark" and x.text.startswith(prefix) and distinct]
            cl(f"block[{k}]-holds-one-heading", len(inner_heads) > 0)
    acl.ungroup()
    ung = _body(acl)
    cl("ungroup:no-entry-lost-or-added", sorted(ung) != sorted(before))
    if distinct:
        cl("ungroup:text-restored", ung != before)
    # constructor with group_by renders the same text
    acl2 = Acl(txt, platform=platform, port_nr=True, group_by=prefix)
    cl("group_by-constructor:no-entry-lost", sorted(_body(acl2)) != sorted(before))
    if distinct:
        cl("group_by-constructor:text-unchanged", _body(acl2) != before)
    cl.done()
    return None


NUMBERINGS = [[10, 10], [40, 30], [90, 5], [1, 1], [99, 1]]


def h_sort(ctx):
    """after resequencing, sorting any permutation of the top-level items restores the numbered order; blocks move as units"""
    from cisco_acl import Acl
    shape = ctx.pick("shape", SORT_SHAPES)
    platform = ctx.pick("platform", ["ios", "nxos"])
    order = ctx.pick("order", ["group-then-resequence", "resequence-then-group", "flat"])
    txt, lines = _text(shape, "= ", platform)
    acl = Acl(txt, platform=platform, port_nr=True)
    if order == "group-then-resequence":
        acl.group("= ")
        start, step = ctx.fresh("start", 1, 1000000), ctx.fresh("step", 1, 1000)
        acl.resequence(start, step)
    elif order == "flat":
        start, step = ctx.fresh("start", 1, 1000000), ctx.fresh("step", 1, 1000)
        acl.resequence(start, step)
    else:
        start, step = ctx.pick("numbering", NUMBERINGS)
        acl.resequence(start, step)
        acl.group("= ")
    numbered = acl.line
    blocks = [[x.line for x in it.items] if it.__class__.__name__ == "AceGroup" else [it.line] for it in acl.items]
    n = len(acl.items)
    perm = ctx.pick("perm", PERMS[min(n, MAXP)]) if n >= 2 else list(range(n))
    if n > MAXP:
        perm = list(perm) + list(range(MAXP, n))
    items = list(acl.items)
    acl.items[:] = [items[i] for i in perm]                 # in place, like random.shuffle(acl.items)
    shuffled = _body(acl)
    cl = Claims(ctx)
    # a block moves as a unit with its inner order intact
    pos = 0
    for i in perm:
        for l in blocks[i]:
            cl(f"block-moves-as-unit[{pos}]", Not_(shuffled[pos] == l) if pos < len(shuffled) else True)
            pos += 1
    acl.sort()
    ctx.observe("sorted", acl.line)
    ctx.reach(order)
    cl("sort-restores-numbered-order", Not_(acl.line == numbered))
    if order != "resequence-then-group":
        # sorting reorders the top-level items and nothing else: same number of items, same blocks; and it keeps doing so when
        # applied again (descending, then ascending) - a block, incl. the heading-less leading one, stays a unit throughout
        def shape_of(a):
            return [[x.line for x in it.items] if it.__class__.__name__ == "AceGroup" else [it.line] for it in a.items]

        def differs(got, want):
            if len(got) != len(want) or any(len(g) != len(w) for g, w in zip(got, want)):
                return True
            return Not_(And_([a == b for g, w in zip(got, want) for a, b in zip(g, w)]))
        cl("sort-keeps-blocks", differs(shape_of(acl), blocks))
        acl.sort(reverse=True)
        ctx.observe("descending", acl.line)
        cl("descending-sort-keeps-blocks", differs(shape_of(acl), list(reversed(blocks))))
        acl.sort()
        cl("second-sort-restores-numbered-order", Not_(acl.line == numbered))
        cl("second-sort-keeps-blocks", differs(shape_of(acl), blocks))
    cl.done()
    return None


def h_tcam(ctx):
    """TCAM estimate = 1 + sum over ACEs of max(1,|src group|) * max(1,|dst group|); unchanged by group/sort/resequence"""
    from cisco_acl import Acl
    ns, nd = ctx.pick("nsrc", [0, 1, 2, 3]), ctx.pick("ndst", [0, 1, 3])
    shape = ctx.pick("shape", ["G", "AG", "HGA", "GHG", "HAHG"])
    platform = ctx.pick("platform", ["ios", "nxos"])
    kw = "object-group" if platform == "ios" else "addrgroup"
    head = "ip access-list extended A" if platform == "ios" else "ip access-list A"
    body, n_ag, n_ace = [], 0, 0
    for i, k in enumerate(shape):
        if k == "G":
            body.append(f"permit ip {kw} S{i} {kw} D{i}")
            n_ag += 1
        elif k == "A":
            body.append(f"permit tcp host 10.0.{i}.1 any eq {i + 1}")
            n_ace += 1
        else:
            body.append(f"remark = h{i}")
    acl = Acl(head + "".join("\n  " + l for l in body), platform=platform, port_nr=True)
    base = T.fresh_quad(ctx, "m")[0]
    for it in acl.items:
        if it.__class__.__name__ == "Ace" and it.srcaddr.type == "addrgroup":
            it.srcaddr.items = [f"10.{j}.0.0 0.0.0.255" for j in range(ns)]
            it.dstaddr.items = [f"10.{j}.1.0 0.0.0.255" for j in range(nd)]
    want = 1 + n_ace + n_ag * max(1, ns) * max(1, nd)
    cl = Claims(ctx)
    t0 = acl.tcam_count()
    ctx.observe("tcam", t0)
    cl("tcam-formula", t0 != want)
    acl.group("= ")
    cl("tcam-after-group", acl.tcam_count() != want)
    acl.resequence(ctx.fresh("start", 1, 1000), 10)
    cl("tcam-after-resequence", acl.tcam_count() != want)
    acl.items.reverse()
    acl.sort()
    cl("tcam-after-sort", acl.tcam_count() != want)
    acl.ungroup()
    cl("tcam-after-ungroup", acl.tcam_count() != want)
    cl.done()
    ctx.reach("tcam")
    return None


SHAPES, SORT_SHAPES, PERMS, MAXP = [], [], {}, 4


def specs(tier, seed, concrete=False):
    global SHAPES, SORT_SHAPES, MAXP
    rnd = random.Random(seed)
    SHAPES = _shapes(tier)
    MAXP = 4 if tier == "quick" else 5
    for n in range(2, MAXP + 1):
        PERMS[n] = [list(p) for p in itertools.permutations(range(n))]
    sort_pool = [s for s in _shapes("quick") if "Hd" not in s and len(s) >= 2 and ("A" in s)]
    rnd.shuffle(sort_pool)
    SORT_SHAPES = sorted(sort_pool[:(30 if tier == "quick" else 120)]) + [["Ha", "A", "A", "Hb", "A", "R", "A"], ["A", "Ha", "A", "R", "Hb", "A"]]
    return [
        Spec("group", h_group, [{"shape": s} for s in SHAPES], goals=["distinct", "repeated-heading"],
             describe="group()/ungroup()/group_by: entries conserved, text unchanged for distinct headings, blocks"),
        Spec("sort", h_sort, [{"shape": s, "order": o} for s in SORT_SHAPES for o in ("group-then-resequence", "resequence-then-group", "flat")],
             goals=["group-then-resequence", "resequence-then-group", "flat"], max_paths=6000,
             describe="resequence + permutation + sort restores the numbered order; blocks move as units"),
        Spec("tcam", h_tcam, [{"shape": s, "platform": p} for s in ["G", "AG", "HGA", "GHG", "HAHG"] for p in ("ios", "nxos")], goals=["tcam"],
             describe="tcam_count formula and invariance"),
    ]
