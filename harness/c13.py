"""C13 - Address containment answers equal true set containment."""
import random

from symx.core import V, Or_, And_, Not_, Iff_, Xor_
from symx import text as T
from oracle import inclusion as inc
from .common import Spec, Claims, ALL, m2i, i2m, contiguous, low_run

PROPERTY = "C13"
BOUNDS = ("both base addresses (and member bases) symbolic over all 2^32 values; wildcard masks are structure: B-Mp = contiguous "
          "lengths {0,1,8,23,24,25,30,31,32} + 12 non-contiguous masks (21 masks, all 441 ordered pairs); spellings {wildcard, "
          "host, zero wildcard, prefix (foreign on IOS), any} x platforms {ios, nxos}: quick = every mask pair under one spelling/"
          "platform combination drawn from the seed + all spelling combinations on 4x4 contiguous lengths; thorough = every mask "
          "pair under every applicable spelling combination on both platforms; address-group members: contiguous lengths "
          "{0,8,24,31,32} in every native member spelling; groups of <=2 members; object-group addresses with <=2 member items (top groups also with 3 members of mixed prefix lengths).")
ASSUMPTIONS = ["set inclusion of wildcard sets uses a closed form proved equivalent to its definition by two witness lemmas "
               "(re-proved by z3 at the start of every run)"]

CONT = [0, 1, 8, 23, 24, 25, 30, 31, 32]
NONC = ["0.0.1.0", "0.0.0.2", "128.0.0.0", "0.0.1.3", "0.1.0.255", "64.0.0.255", "0.0.5.0", "0.0.0.10", "129.0.0.0",
        "0.0.3.1", "0.3.0.255", "160.0.0.127"]
MASKS = [ALL >> l if l else ALL for l in CONT]
MASKS = [(1 << (32 - l)) - 1 for l in CONT] + [m2i(m) for m in NONC]


def lemmas():
    return inc.lemmas()


def spellings(mi):
    out = ["wild"]
    if mi == 0:
        out += ["host", "bare"]
    if mi == ALL:
        out += ["any"]
    if contiguous(mi):
        out += ["prefix"]
    return out


def spell(ctx, name, mi, how):
    """(text, base value) of an address with wildcard mask mi in spelling `how`; base has free bits under the mask"""
    if how == "any":
        return "any", 0
    s, v = T.fresh_quad(ctx, name)
    if how == "wild":
        return s + " " + i2m(mi), v
    if how == "host":
        return "host " + s, v
    if how == "bare":
        return s, v
    if how == "prefix":
        return s + "/" + str(32 - low_run(mi)), v
    raise ValueError(how)


def h_pair(ctx):
    """Address.subnet_of on group-free addresses: exact"""
    from cisco_acl import Address
    platform = ctx.pick("platform", ["ios", "nxos"])
    ma, mb = ctx.pick("ma", MASKS), ctx.pick("mb", MASKS)
    sa, sb = ctx.pick("sa", spellings(ma)), ctx.pick("sb", spellings(mb))
    ta, a = spell(ctx, "a", ma, sa)
    tb, b = spell(ctx, "b", mb, sb)
    A = Address(ta, platform=platform, max_ncwb=30)
    Bo = Address(tb, platform=platform, max_ncwb=30)
    got = A.subnet_of(Bo)
    ctx.observe("a", A.line)
    ctx.observe("b", Bo.line)
    ctx.observe("got", got)
    ctx.reach("true" if got else "false")
    want = inc.wild_subset(a, ma, b, mb)
    ctx.claim("subnet_of-exact", Xor_(got, want))
    return None


AG_LENS = [0, 8, 24, 31, 32]


def ag_spellings(platform, l):
    if l == 32:
        return ["host", "prefix"] + (["subnet"] if platform == "ios" else ["wild"])
    if l == 0:
        return ["prefix", "wild"] if platform == "nxos" else []       # IOS refuses 0.0.0.0 0.0.0.0
    return ["subnet", "prefix"] if platform == "ios" else ["prefix", "wild"]


def ag_spell(ctx, name, platform, l, how, aligned=True):
    s, v = T.fresh_quad(ctx, name)
    hm = (1 << (32 - l)) - 1
    if how == "host":
        return "host " + s, v
    if how in ("subnet",):
        ctx.assume((V(v) & hm) == 0)         # IOS group members must be written without host bits
        return s + " " + i2m(ALL ^ hm), v
    if how == "prefix":
        return s + "/" + str(l), v
    return s + " " + i2m(hm), v


def h_member(ctx):
    """AddressAg in AddressAg (both contiguous), every native member spelling: exact"""
    from cisco_acl import AddressAg
    platform = ctx.pick("platform", ["ios", "nxos"])
    l1, l2 = ctx.pick("l1", AG_LENS), ctx.pick("l2", AG_LENS)
    s1, s2 = ctx.pick("s1", ag_spellings(platform, l1)), ctx.pick("s2", ag_spellings(platform, l2))
    t1, a = ag_spell(ctx, "a", platform, l1, s1)
    t2, b = ag_spell(ctx, "b", platform, l2, s2)
    m_in = AddressAg(t1, platform=platform)       # the one tested for membership
    m_out = AddressAg(t2, platform=platform)      # the container
    got = m_in in m_out
    ctx.observe("in", m_in.line)
    ctx.observe("out", m_out.line)
    ctx.observe("got", got)
    ctx.reach("true" if got else "false")
    hm1, hm2 = (1 << (32 - l1)) - 1, (1 << (32 - l2)) - 1
    ctx.claim("member-in-member-exact", Xor_(got, inc.wild_subset(a, hm1, b, hm2)))
    return None


def h_group(ctx):
    """AddressAg in AddrGroup of two members: true exactly when some member contains it"""
    from cisco_acl import AddressAg, AddrGroup
    platform = ctx.pick("platform", ["ios", "nxos"])
    l1, l2, l3 = ctx.pick("l1", [8, 24, 32]), ctx.pick("l2", [8, 24, 31, 32]), ctx.pick("l3", [24, 32])
    t1, a = ag_spell(ctx, "a", platform, l1, ag_spellings(platform, l1)[-1])
    t2, b = ag_spell(ctx, "b", platform, l2, ag_spellings(platform, l2)[0])
    t3, c = ag_spell(ctx, "c", platform, l3, ag_spellings(platform, l3)[-1])
    hm1, hm2, hm3 = ((1 << (32 - l)) - 1 for l in (l1, l2, l3))
    m_in = AddressAg(t1, platform=platform)
    head = "object-group network G" if platform == "ios" else "object-group ip address G"
    order = ctx.pick("order", [0, 1])
    body = [t2, t3] if order == 0 else [t3, t2]
    g = AddrGroup(head + "\n  " + body[0] + "\n  " + body[1], platform=platform)
    got_g = m_in in g
    ctx.observe("in", m_in.line)
    ctx.observe("group", g.line)
    ctx.observe("got_g", got_g)
    ctx.reach("true" if got_g else "false")
    ctx.claim("member-in-group-exact", Xor_(got_g, Or_(inc.wild_subset(a, hm1, b, hm2), inc.wild_subset(a, hm1, c, hm3))))
    return None


def h_grouped(ctx):
    """Address of type addrgroup (members attached) on either side: a positive answer implies containment"""
    from cisco_acl import Address
    platform = ctx.pick("platform", ["ios", "nxos"])
    kw = "object-group" if platform == "ios" else "addrgroup"
    side = ctx.pick("side", ["top", "bottom", "both"])
    mlist = [m2i("0.0.0.255"), 0, m2i("0.0.1.3")]
    x = ctx.fresh("x", 0, ALL)

    def group(name, n):
        items, preds = [], []
        for i in range(n):
            # three members: mixed prefix lengths with the longest in the middle (order matters for shortcuts)
            mi = ctx.pick(f"{name}m{i}", mlist if n < 3 else [[m2i("0.0.0.255")], [3, 0], [m2i("0.0.0.255"), m2i("0.0.255.255")]][i])
            t, v = spell(ctx, f"{name}{i}_", mi, "wild")
            items.append(t)
            preds.append((v, mi))
        return Address(f"{kw} G{name}", platform=platform, items=items), preds

    def single(name):
        mi = ctx.pick(f"{name}m", mlist + [ALL])
        t, v = spell(ctx, name, mi, "wild")
        return Address(t, platform=platform), [(v, mi)]

    nt = ctx.pick("nt", [1, 2, 3]) if side in ("top", "both") else 0
    nb = ctx.pick("nb", [1, 2] if nt < 2 else [1]) if side in ("bottom", "both") else 0
    top, tp = group("t", nt) if nt else single("t")
    bot, bp = group("b", nb) if nb else single("b")
    got = bot.subnet_of(top)
    ctx.observe("top", [i.line for i in top.items] or top.line)
    ctx.observe("bot", [i.line for i in bot.items] or bot.line)
    ctx.observe("got", got)
    ctx.reach("true" if got else "false")
    in_bot = Or_([inc.wild_member(x, v, mi) for v, mi in bp])
    in_top = Or_([inc.wild_member(x, v, mi) for v, mi in tp])
    ctx.claim("grouped-positive-implies-containment", And_(got, in_bot, Not_(in_top)))
    # every bottom member inside ONE top member is sufficient: then the answer must be positive
    suff = And_([Or_([inc.wild_subset(bv, bm, tv, tm) for tv, tm in tp]) for bv, bm in bp])
    ctx.claim("grouped-memberwise-containment-is-reported", And_(suff, Not_(got)))
    # the answer must follow the CURRENT members: reassign the top group's members after the first query and ask again
    if nt and side == "top":
        nv_t, nv = spell(ctx, "z", m2i("0.0.0.255"), "wild")
        top.items = [nv_t]
        got2 = bot.subnet_of(top)
        ctx.observe("got2", got2)
        in_new = inc.wild_member(x, nv, m2i("0.0.0.255"))
        ctx.claim("after-member-reassignment:positive-implies-containment", And_(got2, in_bot, Not_(in_new)))
        suff2 = And_([inc.wild_subset(bv, bm, nv, m2i("0.0.0.255")) for bv, bm in bp])
        ctx.claim("after-member-reassignment:memberwise-containment-is-reported", And_(suff2, Not_(got2)))
    return None


def _pair_shards(tier, seed):
    rnd = random.Random(seed)
    out = []
    for ma in MASKS:
        for mb in MASKS:
            if tier == "quick":
                out.append({"ma": ma, "mb": mb, "sa": rnd.choice(spellings(ma)), "sb": rnd.choice(spellings(mb)),
                            "platform": rnd.choice(["ios", "nxos"])})
            else:
                out.append({"ma": ma, "mb": mb})
    small = [(1 << (32 - l)) - 1 for l in (0, 24, 31, 32)]
    if tier == "quick":
        for ma in small:
            for mb in small:
                out.append({"ma": ma, "mb": mb})
    return out


def _grouped_shards():
    ml = [m2i("0.0.0.255"), 0, m2i("0.0.1.3")]
    out = []
    for p in ("ios", "nxos"):
        for side in ("top", "bottom", "both"):
            for nt in ([1, 2, 3] if side == "top" else [1, 2] if side == "both" else [0]):
                for nb in (([1, 2] if nt < 2 else [1]) if side in ("bottom", "both") else [0]):
                    d = {"platform": p, "side": side}
                    if nt:
                        d["nt"] = nt
                    if nb:
                        d["nb"] = nb
                    firsts = [("tm0" if nt else "tm"), ("bm0" if nb else "bm")]
                    if nt == 3:
                        for m2 in ml + [0xFFFFFFFF]:
                            out.append(dict(d, **{firsts[1]: m2}))
                        continue
                    for m1 in ml:
                        for m2 in ml:
                            out.append(dict(d, **{firsts[0]: m1, firsts[1]: m2}))
    return out


def specs(tier, seed, concrete=False):
    return [
        Spec("pair", h_pair, _pair_shards(tier, seed), goals=["true", "false"],
             describe="Address.subnet_of(Address) vs closed-form inclusion, all mask pairs"),
        Spec("member", h_member, [{"platform": p, "l1": a, "l2": b} for p in ("ios", "nxos") for a in AG_LENS for b in AG_LENS
                                  if ag_spellings(p, a) and ag_spellings(p, b)],
             goals=["true", "false"], describe="AddressAg in AddressAg, all native member spellings"),
        Spec("group", h_group, [{"platform": p, "l1": a, "l2": b} for p in ("ios", "nxos") for a in (8, 24, 32) for b in (8, 24, 31, 32)],
             goals=["true", "false"], describe="AddressAg in AddrGroup of two members"),
        Spec("grouped", h_grouped, _grouped_shards(),
             goals=["true", "false"], describe="object-group addresses with member items: soundness + memberwise completeness"),
    ]
