"""Helpers shared by harnesses (dual mode: the same code runs on proxies and on plain values)."""
import itertools
import random

import z3

from symx.core import Z, B, V, Or_, And_, Not_, SymInt, SymStr, SymBool, W
from symx import text as T
from symx.runner import Spec  # noqa: F401

ALL = 0xFFFFFFFF


def m2i(m):
    return sum(int(o) << (8 * (3 - i)) for i, o in enumerate(m.split(".")))


def i2m(i):
    return ".".join(str((i >> s) & 255) for s in (24, 16, 8, 0))


def low_run(mi):
    """number of trailing one bits of a wildcard mask"""
    t = 0
    while mi >> t & 1:
        t += 1
    return t


def stray_bits(mi):
    """k: wildcard bits that are not part of the low contiguous run"""
    return bin(mi).count("1") - low_run(mi)


def contiguous(mi):
    return (mi & (mi + 1)) == 0


def mask_family(k):
    """B-M(k): low run of t ones plus at most k further set bits above bit t (bit t clear)."""
    out = []
    for t in range(0, 33):
        base = (1 << t) - 1
        out.append(base)
        free = list(range(t + 1, 32))
        for n in range(1, k + 1):
            for combo in itertools.combinations(free, n):
                mi = base
                for b in combo:
                    mi |= 1 << b
                out.append(mi)
    return sorted(set(out))


def dense_masks():
    """B-Md: 64 masks with 4..8 non-contiguous bits, octet aligned and alternating patterns."""
    out = []
    pats = [0x55, 0xAA, 0x0F << 1 & 0xFF, 0xF0, 0x33 << 1 & 0xFF, 0xCC, 0x5A, 0xA5]
    for p in pats:
        for sh in (0, 8, 16, 24):
            out.append((p << sh) & ALL)
    for p in (0x5, 0xA, 0x9, 0x6):
        for sh in (1, 9, 17, 27):
            out.append((p << sh) & ALL)
    rnd = random.Random(20260928)
    while len(set(out)) < 64:
        n = rnd.randint(4, 8)
        bits = rnd.sample(range(1, 32), n)
        mi = 0
        for b in bits:
            mi |= 1 << b
        if 4 <= stray_bits(mi) <= 8:
            out.append(mi)
    out = [m for m in dict.fromkeys(out) if 1 <= stray_bits(m) <= 8]
    return out[:64]


def chunks(xs, n):
    return [xs[i:i + n] for i in range(0, len(xs), n)]


def in_net_z3(x, net):
    """z3: x inside IPv4Network `net` whose addresses may be symbolic"""
    lo = Z(T.ival(net.network_address))
    hi = Z(T.ival(net.broadcast_address))
    return z3.And(Z(x) >= lo, Z(x) <= hi)


def wild_pred(x, base, mi):
    """Cisco meaning of `base wildcard`: x agrees with base on all non-wildcard bits"""
    return ((Z(x) ^ Z(base)) & (~mi & ALL)) == 0


def net_key(n):
    return [T.ival(n.network_address), n.prefixlen]


class Claims:
    """Collect the claims about one object and decide them with one solver query (see Ctx.claims)."""

    def __init__(self, ctx):
        self.ctx, self.pairs = ctx, []

    def __call__(self, label, bad):
        self.pairs.append((label, bad))

    def done(self):
        self.ctx.claims(self.pairs)
        self.pairs = []


def member(p, xs):
    """p in xs; concrete members are compressed into runs so that 65 000 ports cost a handful of comparisons"""
    if type(p) is int and all(type(x) is int for x in xs):
        return p in xs
    conc = sorted(x for x in xs if type(x) is int)
    terms = [V(p) == V(x) for x in xs if type(x) is not int]
    i = 0
    while i < len(conc):
        j = i
        while j + 1 < len(conc) and conc[j + 1] - conc[j] <= 1:
            j += 1
        terms.append(V(p) == conc[i] if i == j else And_(V(p) >= conc[i], V(p) <= conc[j]))
        i = j + 1
    return Or_(terms)


def in_nets(x, nets):
    """x inside the union of IPv4Network objects (addresses may be symbolic)"""
    return Or_([And_(V(x) >= V(T.ival(n.network_address)), V(x) <= V(T.ival(n.broadcast_address))) for n in nets])
