"""C16 - copy()/data() rebuild an equal, independent object; ids and notes are stable."""
from symx.core import V, Or_, And_, Not_, Iff_, Xor_
from symx import text as T
from . import aclgen as AG
from .common import Spec, Claims
from .c06 import deep_eq

PROPERTY = "C16"
BOUNDS = ("one object per exported class (Port, Protocol, Option, Wildcard, Address plain and with group members, AddressAg, AddrGroup, "
          "Remark, Ace, AceGroup, Acl flat/grouped from the relation templates) with symbolic numerals; copy() and Class(**data()) "
          "compared by text and deep data; 3..8 mutations per class applied to the copy (then to the source) with the other side "
          "re-read; in-place transformations {platform, port_nr, protocol_nr, type, resequence, sort, group, ungroup} singly and in "
          "chains of 2 (quick) / 3 (thorough) on ACLs with distinct notes on every object.")
ASSUMPTIONS = ["the user-supplied note object may be shared between copy and source"]


def _snap(o):
    return (o.line, o.data())


def _same(o, snap):
    return And_(o.line == snap[0], deep_eq(o.data(), snap[1]))


def _objects(ctx, kind, w):
    """-> (object, list of (name, mutation callable taking the object))"""
    from cisco_acl import Port, Protocol, Option, Address, AddressAg, AddrGroup, Remark, Ace, AceGroup, Acl
    from cisco_acl.wildcard import Wildcard
    X, Y = w.txt["X"], w.txt["Y"]
    if kind == "Port":
        o = Port("eq " + T.num(w.p) + " " + T.num(w.q), protocol="tcp", port_nr=True)
        ctx.assume(V(w.p) < V(w.q))
        muts = [("items", lambda c: setattr(c, "items", [1])), ("line", lambda c: setattr(c, "line", "range 5 6")),
                ("platform", lambda c: setattr(c, "port_nr", False)), ("items-list", lambda c: c.items.append(7)),
                ("ports-list", lambda c: c.ports.append(9))]
    elif kind == "Protocol":
        o = Protocol("tcp", protocol_nr=False)
        muts = [("line", lambda c: setattr(c, "line", "udp")), ("nr", lambda c: setattr(c, "protocol_nr", True)),
                ("number", lambda c: setattr(c, "number", 47))]
    elif kind == "Option":
        o = Option("ack syn log")
        muts = [("line", lambda c: setattr(c, "line", "log-input")), ("flags-list", lambda c: c.flags.append("urg")),
                ("logs-list", lambda c: c.logs.clear())]
    elif kind == "Wildcard":
        o = Wildcard(X + " 0.0.1.3")
        muts = [("line", lambda c: setattr(c, "line", Y + " 0.0.0.255")), ("ipnets-list", lambda c: c.ipnets().clear()),
                ("limit", lambda c: setattr(c, "max_ncwb", 3))]
    elif kind == "Address":
        o = Address(X + " 0.0.0.255", platform="ios")
        muts = [("line", lambda c: setattr(c, "line", "host " + Y)), ("platform", lambda c: setattr(c, "platform", "nxos")),
                ("prefix", lambda c: setattr(c, "prefix", "10.0.0.0/8"))]
    elif kind == "AddressGroup":
        o = Address("object-group G1", platform="ios", items=[X + " 0.0.0.255", "host " + Y])
        muts = [("items-pop", lambda c: c.items.pop()), ("member-line", lambda c: setattr(c.items[0], "line", "host 9.9.9.9")),
                ("platform", lambda c: setattr(c, "platform", "nxos")), ("items-set", lambda c: setattr(c, "items", ["host 8.8.8.8"]))]
    elif kind == "AddressAg":
        o = AddressAg(T.num(w.q) + " " + X + "/24", platform="nxos")
        ctx.assume((V(w.val["X"]) & 255) == 0)
        muts = [("line", lambda c: setattr(c, "line", "host " + Y)), ("sequence", lambda c: setattr(c, "sequence", 5)),
                ("platform", lambda c: setattr(c, "platform", "ios"))]
    elif kind == "AddrGroup":
        o = AddrGroup("object-group network G\n  host " + X + "\n  " + Y + " 255.255.255.0", platform="ios")
        ctx.assume((V(w.val["Y"]) & 255) == 0)
        muts = [("items-pop", lambda c: c.items.pop()), ("member-line", lambda c: setattr(c.items[0], "line", "host 9.9.9.9")),
                ("name", lambda c: setattr(c, "name", "H")), ("platform", lambda c: setattr(c, "platform", "nxos")),
                ("resequence", lambda c: c.resequence(10, 10)), ("indent", lambda c: setattr(c, "indent", " "))]
    elif kind == "Remark":
        o = Remark(T.num(w.q) + " remark some text")
        muts = [("text", lambda c: setattr(c, "text", "other")), ("sequence", lambda c: setattr(c, "sequence", 5)),
                ("line", lambda c: setattr(c, "line", "remark x"))]
    elif kind in ("Ace", "AceWithGroup"):
        if kind == "Ace":
            o = Ace(T.num(w.q) + " permit tcp " + X + " 0.0.0.255 eq " + T.num(w.p) + " host " + Y + " ack log", platform="ios", port_nr=True)
        else:
            o = Ace("permit ip object-group G1 object-group G2", platform="ios", srcaddr=dict(line="object-group G1", items=[X + " 0.0.0.255"]),
                    dstaddr=dict(line="object-group G2", items=["host " + Y]))
        muts = [("line", lambda c: setattr(c, "line", "deny ip any any")), ("srcaddr-line", lambda c: setattr(c.srcaddr, "line", "host 7.7.7.7")),
                ("dstaddr-line", lambda c: setattr(c.dstaddr, "line", "any")), ("option-line", lambda c: setattr(c.option, "line", "log")),
                ("sequence", lambda c: setattr(c, "sequence", 5)), ("platform", lambda c: setattr(c, "platform", "nxos")),
                ("protocol", lambda c: setattr(c.protocol, "line", "udp")), ("port_nr", lambda c: setattr(c, "port_nr", False))]
        if kind == "Ace":
            muts.append(("srcport-items", lambda c: setattr(c.srcport, "items", [1])))
        else:
            muts.append(("src-members-pop", lambda c: c.srcaddr.items.pop()))
            muts.append(("dst-member-line", lambda c: setattr(c.dstaddr.items[0], "line", "host 6.6.6.6")))
    else:
        name = {"Acl": "nest", "AclGrouped": "mixed", "AclGroups": "group", "AceGroup": "nest"}[kind]
        specs = AG.TEMPLATES[name][:5]
        txt = AG.acl_text(w, specs, "ios", seqs=[w.q + 10 * i for i in range(len(specs))] if kind != "AclGroups" else None)
        if kind == "AceGroup":
            o = AceGroup("\n".join([]) or T.join([AG.line_text(w, s, "ios") for s in specs], "\n"), platform="ios", port_nr=True)
        else:
            o = Acl(txt, platform="ios", port_nr=True, group_by="= " if kind == "AclGrouped" else "", input=["Gi1"], output=["Gi2"])
            AG.attach_groups(w, o)
        muts = [("items-pop", lambda c: c.items.pop()), ("platform", lambda c: setattr(c, "platform", "nxos")),
                ("resequence", lambda c: c.resequence(5, 5)), ("first-item-sequence", lambda c: setattr(c.items[0], "sequence", 77)),
                ("reverse", lambda c: c.items.reverse()), ("name", lambda c: setattr(c, "name", "B1"))]
        if kind != "AceGroup":
            muts += [("input-list", lambda c: c.input.append("Gi9")), ("indent", lambda c: setattr(c, "indent", " ")),
                     ("delete_shadow", lambda c: c.delete_shadow()), ("ungroup_ports", lambda c: c.ungroup_ports())]
        if kind == "AclGroups":
            muts.append(("member-pop", lambda c: [i for i in c.items if i.__class__.__name__ == "Ace" and i.srcaddr.items][0].srcaddr.items.pop()))
    return o, muts


KINDS = ["Port", "Protocol", "Option", "Wildcard", "Address", "AddressGroup", "AddressAg", "AddrGroup", "Remark", "Ace", "AceWithGroup",
         "AceGroup", "Acl", "AclGrouped", "AclGroups"]


def h_copy(ctx):
    kind = ctx.pick("kind", KINDS)
    w = AG.World(ctx)
    o, muts = _objects(ctx, kind, w)
    which = ctx.pick("mutation", [m[0] for m in muts] + ["-"])
    direction = ctx.pick("direction", ["mutate-copy", "mutate-source"])
    cl = Claims(ctx)
    c = o.copy()
    cl("copy-text", Not_(c.line == o.line))
    cl("copy-data", Not_(deep_eq(c.data(), o.data())))
    cl("copy-is-new-object", c is o)
    r = o.__class__(**o.data())
    cl("rebuild-text", Not_(r.line == o.line))
    cl("rebuild-data", Not_(deep_eq(r.data(), o.data())))
    ctx.observe("line", o.line)
    cl.done()
    if which != "-":
        fn = dict(muts)[which]
        a, b = (c, o) if direction == "mutate-copy" else (o, c)
        snap = _snap(b)
        try:
            fn(a)
        except (ValueError, TypeError, IndexError) as e:
            ctx.observe("mutation-refused", type(e).__name__)
        ctx.reach("mutated")
        ctx.claim(f"independent[{which}]", Not_(_same(b, snap)))
    return None


OPS = ["platform-nxos", "port_nr", "protocol_nr", "resequence", "sort", "group", "ungroup", "type", "platform-ios", "ungroup_ports"]


def _apply(acl, op):
    if op == "platform-nxos":
        acl.platform = "nxos"
    elif op == "platform-ios":
        acl.platform = "ios"
    elif op == "port_nr":
        acl.port_nr = not acl.port_nr
    elif op == "protocol_nr":
        acl.protocol_nr = not acl.protocol_nr
    elif op == "resequence":
        acl.resequence(10, 10)
    elif op == "sort":
        acl.sort()
    elif op == "group":
        acl.group("= ")
    elif op == "ungroup":
        acl.ungroup()
    elif op == "type":
        acl.type = "extended"
    elif op == "ungroup_ports":
        acl.ungroup_ports()


def _flat(acl):
    out = []
    for it in acl.items:
        if it.__class__.__name__ == "AceGroup":
            out += list(it.items)
        else:
            out.append(it)
    return out


def h_ids(ctx):
    """in-place transformations keep uuid and note of every object they do not replace by a split"""
    from cisco_acl import Acl
    grouped = ctx.pick("grouped", [False, True])
    chain = ctx.pick("chain", CHAINS)
    # identifiers do not depend on field values: the text is concrete here (sorting compares rendered text)
    txt = ("ip access-list extended A1\n  remark = g1, first\n  permit ip 10.1.1.0 0.0.0.255 any\n  remark note\n"
           "  permit tcp host 10.1.1.1 any eq 80 443 log\n  remark = g2\n  deny tcp any host 10.2.2.2 ack\n  permit udp any eq 53 any\n"
           "  permit tcp any any neq 25\n  deny ip any any")
    acl = Acl(txt, platform="ios", port_nr=True, group_by="= " if grouped else "", note="acl-note")
    for k, it in enumerate(_flat(acl)):
        it.note = f"note{k}"
    for k, it in enumerate(acl.items):
        if it.__class__.__name__ == "AceGroup":
            it.note = f"group-note{k}"
    ids0 = [(it.uuid, it.note) for it in _flat(acl)]
    gids0 = [(it.uuid, it.note) for it in acl.items if it.__class__.__name__ == "AceGroup"]
    top0 = (acl.uuid, acl.note)
    regrouping = False
    for op in chain:
        _apply(acl, op)
        if op in ("group", "ungroup"):
            regrouping = True
    # a multi-port entry converted to NX-OS is replaced by its split entries (allowed): compare the others
    split = any(op in ("platform-nxos", "ungroup_ports") for op in chain)
    ids1 = [(it.uuid, it.note) for it in _flat(acl)]
    if split:
        ids0 = [x for x in ids0 if x[1] != "note3"]
        ids1 = [x for x in ids1 if x[1] != "note3"]
    gids1 = [(it.uuid, it.note) for it in acl.items if it.__class__.__name__ == "AceGroup"]
    ctx.reach("transformed")
    ctx.observe("line", acl.line)
    cl = Claims(ctx)
    cl("acl-id-note", (acl.uuid, acl.note) != top0)
    cl("item-ids-notes", sorted(ids1) != sorted(ids0))
    if not regrouping:
        cl("group-ids-notes", gids1 != gids0)
    cl.done()
    return None


CHAINS = []


def specs(tier, seed, concrete=False):
    global CHAINS
    import itertools
    CHAINS = [[o] for o in OPS] + [[a, b] for a in OPS for b in OPS if a != b]
    if tier != "quick":
        import random
        rnd = random.Random(seed)
        CHAINS += [list(c) for c in rnd.sample(list(itertools.permutations(OPS, 3)), 150)]
    return [
        Spec("copy", h_copy, [{"kind": k} for k in KINDS], goals=["mutated"], max_paths=6000,
             describe="copy()/Class(**data()) equality and independence under mutations"),
        Spec("ids", h_ids, [{"grouped": g, "chain": c} for g in (False, True) for c in CHAINS], goals=["transformed"],
             describe="uuid/note stability under in-place transformations"),
    ]
