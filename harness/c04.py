"""C04 - Deleting shadowed entries never changes any packet's permit/deny decision (+ C11's ACL-level report)."""
import itertools
import random

from symx.core import V, Or_, And_, Not_, Iff_, Xor_
from symx import text as T
from oracle.packet import Pkt, decision
from oracle import reader as rd
from . import aclgen as AG
from .common import Spec, Claims

PROPERTY = "C04"
BOUNDS = ("ACLs of 2..4 (quick) / 2..5 (thorough) lines selected (order kept, reversed and seeded random orders) from 8 relation templates (one with numeric keyword-less protocols, one IOS-only with a multi-port eq entry leaving a gap) over shared "
          "symbolic addresses X/24, host in X/24, free Y, ports p..p+2 and q: nested / duplicate / disjoint addresses, ports and "
          "protocols, remarks + headings + log + TCP flags, non-contiguous wildcards, address groups with members; sequence "
          "numbers none or symbolic; group_by none or '= '; both platforms.  All addresses, ports, numbers and the probe packet "
          "are symbolic.")
ASSUMPTIONS = ["meaning of the ACL before the operation comes from the skeleton, after the operation from the independent reader",
               "several TCP flag keywords match ANY of them; log keywords do not matter"]


def _selections(tier, seed):
    rnd = random.Random(seed)
    out = []
    for name, tmpl in AG.TEMPLATES.items():
        n = len(tmpl)
        sels = []
        for k in ((2, 3, 4) if tier == "quick" else (2, 3, 4, 5)):
            combos = list(itertools.combinations(range(n), k))
            rnd.shuffle(combos)
            sels += combos[:(4 if tier == "quick" else 10)]
        sels = [list(c) for c in sels] + [list(reversed(c)) for c in sels[:(3 if tier == "quick" else 8)]]
        # arbitrary orders (not only configuration order and its reverse)
        for _ in range(4 if tier == "quick" else 16):
            k = rnd.choice((3, 4) if tier == "quick" else (3, 4, 5))
            sels.append(rnd.sample(range(n), min(k, n)))
        for s in sels:
            # a selection must contain at least one ACE
            if any(tmpl[i]["kind"] == "ace" for i in s):
                out.append((name, s))
    return out


class Skip(Exception):
    """this structural combination does not exist (multi-port entries on NX-OS)"""


def _flat_lines(acl):
    return [l.strip() for l in acl.line.split("\n")[1:]]


def _build(ctx, with_ops=True):
    from cisco_acl import Acl
    name, sel = ctx.pick("acl", SELS)
    platform = ctx.pick("platform", ["ios", "nxos"])
    numbered = ctx.pick("numbered", [False, True])
    gb = ctx.pick("group_by", ["", "= "]) if name == "mixed" else ""
    w = AG.World(ctx)
    specs = [AG.TEMPLATES[name][i] for i in sel]
    if platform != "ios" and AG.ios_only(specs):
        raise Skip()
    if AG.ios_only(specs):
        ctx.assume(V(w.p) + 2 <= 65535)
    seqs = None
    if numbered:
        s0 = ctx.fresh("s0", 1, 4000000000)
        seqs = [s0 + 10 * i for i in range(len(specs))]
    txt = AG.acl_text(w, specs, platform, seqs=seqs)
    acl = Acl(txt, platform=platform, group_by=gb, port_nr=True)
    AG.attach_groups(w, acl)
    rules = [AG.line_rule(w, s, 0 if seqs is None else seqs[i]) for i, s in enumerate(specs)]
    return w, specs, rules, acl, platform, seqs


def _norm_report(d):
    """report dict -> list of [top, [bottoms]] in insertion order"""
    return [[k, list(v)] for k, v in d.items()]


def _eq_report(a, b):
    if len(a) != len(b):
        return False
    conds = []
    for (ka, va), (kb, vb) in zip(a, b):
        if len(va) != len(vb):
            return False
        conds.append(ka == kb)
        conds += [x == y for x, y in zip(va, vb)]
    return And_(conds)


def _subsequence(after, before):
    """`after` is a subsequence of `before` (line texts, symbolic equality)"""
    memo = {}

    def sub(j, i):
        if j == len(after):
            return True
        if i == len(before):
            return False
        if (j, i) not in memo:
            memo[(j, i)] = Or_(And_(after[j] == before[i], sub(j + 1, i + 1)), sub(j, i + 1))
        return memo[(j, i)]
    return sub(0, 0)


def h_delete(ctx):
    try:
        w, specs, rules, acl, platform, seqs = _build(ctx)
    except Skip:
        return None
    pkt = Pkt(ctx)
    before = _flat_lines(acl)
    ctx.observe("before", acl.line)
    ace_rules = [(i, r) for i, r in enumerate(rules) if r is not None]
    rep0 = _norm_report(acl.shading())
    ret = _norm_report(acl.delete_shadow())
    ctx.observe("report", ret)
    ctx.observe("after", acl.line)
    after = _flat_lines(acl)
    ctx.reach("deleted" if ret else "nothing")
    cl = Claims(ctx)
    cl("report-equals-shading", Not_(_eq_report(rep0, ret)))
    # meaning unchanged for every packet
    try:
        parsed = rd.read_acl(acl.line, platform, AG.reader_groups(w))
        after_rules = [it[2]["rule"] for it in parsed["items"] if it[0] == "ace"]
        cl("decision-unchanged", V(decision([r for _, r in ace_rules], pkt)) != V(decision(after_rules, pkt)))
    except rd.Reject as e:
        ctx.observe("reject", str(e))
        cl("rendered-text-valid", True)
    # only ACEs removed, order / numbers / remarks untouched
    cl("subsequence", Not_(_subsequence(after, before)))
    n_rem_before = sum(1 for s in specs if s["kind"] == "remark")
    n_rem_after = sum(1 for l in after if (l.split()[0] == "remark") or (len(l.split()) > 1 and l.split()[1] == "remark" and l.split()[0].isdigit()))
    cl("remarks-kept", n_rem_before != n_rem_after)
    n_removed = sum(len(b) for _, b in ret)
    cl("removed-count-at-least-report", len(before) - len(after) < n_removed)
    # every reported (top, bottom): top stands above bottom, same action, bottom completely covered
    for top, bottoms in ret:
        for bot in bottoms:
            justified = []
            for i, ri in ace_rules:
                for j, rj in ace_rules:
                    if i < j:
                        here = And_(before[i] == top, before[j] == bot)
                        justified.append(here)
                        cl(f"covered[{i},{j}]", And_(here, Or_(ri.action != rj.action, And_(rj.matches(pkt), Not_(ri.matches(pkt))))))
            cl("top-above-bottom", Not_(Or_(justified)))
    cl.done()
    # a second removal finds nothing
    text1 = acl.line
    ret2 = acl.delete_shadow()
    ctx.claim("second-call-empty", len(ret2) != 0)
    ctx.claim("second-call-no-change", Not_(acl.line == text1))
    return None


def h_report(ctx):
    """C11: the ACL-level report lists each ACE some earlier ACE shadows exactly once, under the first such ACE."""
    from cisco_acl import Ace
    try:
        w, specs, rules, acl, platform, seqs = _build(ctx)
    except Skip:
        return None
    flat = acl.copy()
    flat.ungroup()
    AG.attach_groups(w, flat)
    aces = [o for o in flat.items if o.__class__.__name__ == "Ace"]
    lines = [o.line for o in aces]
    expected, listed = [], []
    for i, top in enumerate(aces):
        for j in range(i + 1, len(aces)):
            if aces[j].shadow_of(top):
                if not any(bool(lines[j] == x) for x in listed):
                    for e in expected:
                        if e[0] == lines[i]:
                            e[1].append(lines[j])
                            break
                    else:
                        expected.append([lines[i], [lines[j]]])
                listed.append(lines[j])
    got = _norm_report(acl.shading())
    ctx.observe("report", got)
    ctx.reach("nonempty" if got else "empty")
    cl = Claims(ctx)
    cl("report-follows-spec", Not_(_eq_report(got, expected)))
    flat_list = [b for _, bs in got for b in bs]
    cl("shadow_of-is-flattened-report", Not_(_eq_lists(acl.shadow_of(), flat_list)))
    cl.done()
    return None


def _eq_lists(a, b):
    if len(a) != len(b):
        return False
    return And_([x == y for x, y in zip(a, b)])


SELS = []


def specs(tier, seed, concrete=False):
    global SELS
    SELS = [[n, s] for n, s in _selections(tier, seed)]
    shards = [{"acl": s, "platform": p} for s in SELS for p in ("ios", "nxos")]
    return [
        Spec("delete", h_delete, shards, goals=["deleted", "nothing"], max_paths=3000,
             describe="Acl.delete_shadow(): decision preserved for every packet, only covered ACEs removed, report = shading()"),
        Spec("report", h_report, shards, goals=["nonempty", "empty"], max_paths=3000,
             describe="Acl.shading()/shadow_of() vs the report specification over the library's pairwise answers"),
    ]
