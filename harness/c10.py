"""C10 - Resequencing numbers every line start, start+step, ... and changes nothing else."""
import itertools

from symx.core import V, Or_, And_, Not_, Iff_, Xor_
from symx import text as T
from .common import Spec, Claims

PROPERTY = "C10"
BOUNDS = ("start and step symbolic over [-2^40, 2^40] (covers 0, 1, 2^32-1, 2^32 and negatives); previous sequence numbers "
          "symbolic over 0..2^32-1 (0 = none); ACL shapes: every sequence of <=4 (quick) / <=6 (thorough) body lines over "
          "{heading remark, plain remark, ACE} x group_by in {none, '= '} (all nestings group() can produce) + 14 shapes repeating the SAME entry/remark text (a repeated HEADING is C15's known finding and is left to C15) (old number of one copy may equal the new number of another) + 9 mixed nestings built through the items setter (groups followed by plain items), both platforms; "
          "address groups of 1..4 members on both platforms.")
ASSUMPTIONS = ["ACE/remark bodies are fixed texts; only numbers are symbolic"]

SEQ_MAX = 4294967295
LIM = 1 << 40

KINDS = {"H": "remark = head{i}", "R": "remark note{i}", "A": "permit tcp any host 10.0.0.{i} eq {i}",
         "D": "deny ip any any", "Q": "remark same"}
# the same entry text more than once (legal in a configuration): numbering goes by position, never by what a line says
DUPS = ["DD", "DAD", "DDD", "ADD", "DADA", "QQ", "QAQ", "AQRQ", "HDD", "HDAD", "DHD", "HDHD", "HQAQ", "QHQ"]


def _shapes(tier):
    n = 4 if tier == "quick" else 6
    out = []
    for k in range(1, n + 1):
        for combo in itertools.product("HRA", repeat=k):
            if k >= 5 and combo.count("H") > 2:
                continue
            out.append("".join(combo))
    return out + DUPS


def _seq_of(line):
    """(sequence or 0, rest of line) of one rendered body line (dual mode)"""
    toks = line.split(None, 1)
    if toks and toks[0].isdigit():
        return T.toint(toks[0]), (toks[1] if len(toks) > 1 else "")
    return 0, line


def _body(acl_line):
    return [l.strip() for l in acl_line.split("\n")[1:]]


def h_acl(ctx):
    from cisco_acl import Acl
    platform = ctx.pick("platform", ["ios", "nxos"])
    shape = ctx.pick("shape", _shapes(ctx.tier))
    gb = ctx.pick("group_by", ["", "= "])
    numbered = ctx.pick("numbered", ["none", "all", "mixed"])
    lines = []
    for i, k in enumerate(shape):
        body = KINDS[k].format(i=i + 1)
        if numbered == "all" or (numbered == "mixed" and i % 2 == 0):
            body = T.num(ctx.fresh(f"old{i}", 1, SEQ_MAX)) + " " + body
        lines.append(body)
    head = "ip access-list extended A" if platform == "ios" else "ip access-list A"
    txt = head
    for l in lines:
        txt = txt + "\n  " + l
    acl = Acl(txt, platform=platform, group_by=gb, port_nr=True)
    before = [_seq_of(l)[1] for l in _body(acl.line)]
    n = len(before)
    ctx.claim("parsed-all-lines", n != len(shape))
    start = ctx.fresh("start", -LIM, LIM)
    step = ctx.fresh("step", -LIM, LIM)
    last = start + (n - 1) * step
    must_raise = Or_(V(start) < 0, V(start) > SEQ_MAX, And_(V(start) > 0, V(step) < 1),
                     And_(V(start) > 0, V(last) > SEQ_MAX))
    try:
        ret = acl.resequence(start, step)
    except ValueError:
        ctx.reach("raised")
        ctx.observe("outcome", "ValueError")
        ctx.claim("raise-only-when-documented", Not_(must_raise))
        return None
    ctx.reach("returned")
    ctx.observe("outcome", "returned")
    ctx.observe("ret", ret)
    ctx.observe("line", acl.line)
    cl = Claims(ctx)
    cl("must-raise", must_raise)
    after = [_seq_of(l) for l in _body(acl.line)]
    cl("line-count", len(after) != n)
    for i, (seq, rest) in enumerate(after):
        want = If0(start, start + i * step)
        cl(f"number[{i}]", V(seq) != V(want))
        cl(f"rest[{i}]", Not_(rest == before[i]) if i < n else True)
        cl(f"max[{i}]", V(seq) > SEQ_MAX)
    cl("returns-last", V(ret) != V(If0(start, last)))
    cl.done()
    if type(start) is int and start == 0 or ctx.symbolic and False:
        ctx.reach("removed")
    return None


NESTED = [[[2], 1], [1, [3], 1, 1], [[1], 1], [[2], [2]], [1, [2]], [[2], 1, [1]], [[3], 1, 1], [1, 1, [2], 1], [[2], [1], 1]]


def h_nested(ctx):
    """any nesting of non-empty groups and single items (built through the items setter, not only by group_by)"""
    from cisco_acl import Acl, Ace, AceGroup
    platform = ctx.pick("platform", ["ios", "nxos"])
    shape = ctx.pick("shape", NESTED)
    items, n = [], 0
    for part in shape:
        if type(part) is list:
            lines = []
            for _ in range(part[0]):
                n += 1
                lines.append(f"permit tcp any host 10.0.0.{n} eq {n}")
            items.append(AceGroup("\n".join(lines), platform=platform, port_nr=True))
        else:
            n += 1
            items.append(Ace(f"deny udp any host 10.0.1.{n} eq {n}", platform=platform, port_nr=True))
    acl = Acl("ip access-list extended A" if platform == "ios" else "ip access-list A", platform=platform, port_nr=True)
    acl.items = items
    before = [_seq_of(l)[1] for l in _body(acl.line)]
    start = ctx.fresh("start", -LIM, LIM)
    step = ctx.fresh("step", -LIM, LIM)
    last = start + (n - 1) * step
    must_raise = Or_(V(start) < 0, V(start) > SEQ_MAX, And_(V(start) > 0, V(step) < 1),
                     And_(V(start) > 0, V(last) > SEQ_MAX))
    try:
        ret = acl.resequence(start, step)
    except ValueError:
        ctx.reach("raised")
        ctx.observe("outcome", "ValueError")
        ctx.claim("raise-only-when-documented", Not_(must_raise))
        return None
    ctx.reach("returned")
    ctx.observe("ret", ret)
    ctx.observe("line", acl.line)
    cl = Claims(ctx)
    cl("must-raise", must_raise)
    after = [_seq_of(l) for l in _body(acl.line)]
    cl("line-count", len(after) != n)
    for i, (seq, rest) in enumerate(after):
        cl(f"number[{i}]", V(seq) != V(If0(start, start + i * step)))
        cl(f"rest[{i}]", Not_(rest == before[i]) if i < len(before) else True)
        cl(f"max[{i}]", V(seq) > SEQ_MAX)
    cl("returns-last", V(ret) != V(If0(start, last)))
    cl.done()
    return None


def If0(start, value):
    """value if start > 0 else 0 (start == 0 removes all numbers)"""
    from symx.core import If_
    return If_(V(start) == 0, 0, value)


def h_addrgroup(ctx):
    from cisco_acl import AddrGroup
    platform = ctx.pick("platform", ["ios", "nxos"])
    n = ctx.pick("n", [1, 2, 3, 4])
    numbered = ctx.pick("numbered", ["none", "all"])
    head = "object-group network G" if platform == "ios" else "object-group ip address G"
    txt = head
    for i in range(n):
        m = f"host 10.0.0.{i + 1}" if i % 2 == 0 else (f"10.0.{i}.0 255.255.255.0" if platform == "ios" else f"10.0.{i}.0/24")
        if numbered == "all" and platform == "nxos":
            m = T.num(ctx.fresh(f"old{i}", 1, SEQ_MAX)) + " " + m
        txt = txt + "\n  " + m
    g = AddrGroup(txt, platform=platform)
    before = [_seq_of(l)[1] for l in _body(g.line)]
    start = ctx.fresh("start", -LIM, LIM)
    step = ctx.fresh("step", -LIM, LIM)
    last = start + (n - 1) * step
    must_raise = Or_(V(start) < 0, V(start) > SEQ_MAX, And_(V(start) > 0, V(step) < 1),
                     And_(V(start) > 0, V(last) > SEQ_MAX))
    try:
        ret = g.resequence(start, step)
    except ValueError:
        ctx.reach("raised")
        ctx.observe("outcome", "ValueError")
        ctx.claim("raise-only-when-documented", Not_(must_raise))
        return None
    ctx.reach("returned")
    ctx.observe("ret", ret)
    ctx.observe("line", g.line)
    cl = Claims(ctx)
    cl("must-raise", must_raise)
    cl("returns-last", V(ret) != V(If0(start, last)))
    for i, item in enumerate(g.items):
        cl(f"number[{i}]", V(item.sequence) != V(If0(start, start + i * step)))
        cl(f"max[{i}]", V(item.sequence) > SEQ_MAX)
    after = [_seq_of(l) for l in _body(g.line)]
    cl("line-count", len(after) != n)
    for i, (seq, rest) in enumerate(after):
        cl(f"rest[{i}]", Not_(rest == before[i]))
        if platform == "nxos":
            cl(f"rendered-number[{i}]", V(seq) != V(If0(start, start + i * step)))
    cl.done()
    return None


def specs(tier, seed, concrete=False):
    shapes = _shapes(tier)
    return [
        Spec("acl", h_acl, [{"shape": s, "group_by": g} for s in shapes for g in ("", "= ")],
             goals=["raised", "returned"], describe="Acl.resequence(start, step) through nested AceGroups"),
        Spec("nested", h_nested, [{"platform": p, "shape": sh} for p in ("ios", "nxos") for sh in NESTED], goals=["raised", "returned"],
             describe="mixed nesting built through the items setter: groups followed by plain items etc."),
        Spec("addrgroup", h_addrgroup, [{"platform": p, "n": n} for p in ("ios", "nxos") for n in (1, 2, 3, 4)],
             goals=["raised", "returned"], describe="AddrGroup.resequence(start, step)"),
    ]
