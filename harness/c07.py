"""C07 - Config-level extraction returns exactly the ACLs, bindings and group members."""
import itertools
import random

from symx.core import V, Or_, And_, Not_, Iff_, Xor_
from symx import text as T
from oracle.packet import addr_pred, ALL
from .common import Spec, Claims, in_nets, m2i

PROPERTY = "C07"
BOUNDS = ("configurations assembled from 2 ACL sections (2 and 1-2 lines; one references an address group), 1 address-group section "
          "(2 members, IOS members as subnet masks), 0..2 interface sections with binding sets drawn from {A in, A out, B in, B out} "
          "incl. two different ACLs on one interface and duplicate bindings, 0..1 unrelated sections, comment lines at 3 positions; "
          "quick: all orders of the 4 mandatory+interface sections for 6 binding layouts, indent in {1,2,4}; thorough: more layouts and "
          "noise positions; both platforms; name filter in {None, [A], [B], [missing]}.  Address bases, member bases and sequence "
          "numbers are symbolic.")
ASSUMPTIONS = ["mostly structural: the solver decides only the address/number dimension; section layout is enumerated"]

# binding layouts: list of interfaces, each a list of (acl, direction)
LAYOUTS = [
    [[("A1", "in")]],
    [[("A1", "in"), ("B2", "out")]],                       # two different ACLs on one interface
    [[("A1", "in"), ("A1", "out")]],
    [[("A1", "out")], [("B2", "in"), ("A1", "in")]],
    [[("B2", "in")], [("B2", "in")]],                      # duplicate binding of the same list on two interfaces
    [],
    [[("A1", "in"), ("B2", "in")], [("B2", "out")]],
    [[("A1", "out"), ("B2", "out")]],
]


def _sections(ctx, platform, ind, layout, w):
    a, b, c, m1, m2 = w
    if platform == "ios":
        grp = ["object-group network G1", ind + m1[0] + " 255.255.255.0", ind + "host " + m2[0]]
        acl_a = ["ip access-list extended A1", ind + T.num(ctx.fresh("s1", 1, 4294967295)) + " permit ip object-group G1 any",
                 ind + "remark note a", ind + "deny tcp host " + a[0] + " object-group G1 eq 80"]
        acl_b = ["ip access-list standard B2", ind + "permit " + b[0] + " 0.0.0.255", ind + "deny any log"]
    else:
        grp = ["object-group ip address G1", ind + "10 " + m1[0] + "/24", ind + "20 host " + m2[0]]
        acl_a = ["ip access-list A1", ind + T.num(ctx.fresh("s1", 1, 4294967295)) + " permit ip addrgroup G1 any",
                 ind + "remark note a", ind + "deny tcp host " + a[0] + " addrgroup G1 eq 80"]
        acl_b = ["ip access-list B2", ind + "permit ip " + b[0] + " 0.0.0.255 any", ind + "deny ip any any log"]
    intfs = []
    for k, binds in enumerate(layout):
        sec = [f"interface Ethernet1/{k + 1}", ind + "description uplink", ind + f"ip address 10.9.{k}.1 255.255.255.0"]
        for name, d in binds:
            sec.append(ind + f"ip access-group {name} {d}")
        intfs.append(sec)
    noise = [["hostname R1"], ["router bgp 65000", ind + "neighbor 10.8.8.8 remote-as 65001", ind + ind + "description deep"],
             ["interface Loopback0", ind + "ip address 10.7.7.7 255.255.255.255"]]
    return grp, acl_a, acl_b, intfs, noise


def h_config(ctx):
    import cisco_acl
    platform = ctx.pick("platform", ["ios", "nxos"])
    ind = " " * ctx.pick("indent", [1, 2, 4])
    layout = LAYOUTS[ctx.pick("layout", list(range(len(LAYOUTS))))]
    quads = [T.fresh_quad(ctx, n) for n in ("a", "b", "c", "m", "n")]
    ctx.assume((V(quads[3][1]) & 255) == 0)                  # the /24 member is written as a network
    grp, acl_a, acl_b, intfs, noise = _sections(ctx, platform, ind, layout, quads)
    secs = {"G": grp, "A": acl_a, "B": acl_b}
    for k, s in enumerate(intfs):
        secs[f"I{k}"] = s
    order = ctx.pick("order", ORDERS[len(secs)])
    names = sorted(secs)
    noise_at, comment_at, flt = ctx.pick("variant", VARIANTS)
    lines = []
    for pos, i in enumerate(order):
        if noise_at == pos:
            lines += noise[pos % len(noise)]
        if comment_at == pos:
            lines += ["!", "! a comment line"]
        lines += secs[names[i]]
    if noise_at is not None and noise_at >= len(order):
        lines += noise[0]
    cfg = T.join(lines, "\n") + "\n"
    kw = dict(platform=platform, port_nr=True)
    if flt is not None:
        kw["names"] = flt
    acls = cisco_acl.acls(cfg, **kw)
    groups = cisco_acl.addrgroups(cfg, platform=platform)
    ctx.reach("parsed")
    ctx.observe("acls", [[o.name, o.type, list(o.input), list(o.output), o.line] for o in acls])
    ctx.observe("groups", [g.line for g in groups])
    # ---- reference extraction
    order_names = [names[i] for i in order]
    want = [n for n in (("A1" if s == "A" else "B2") for s in order_names if s in ("A", "B")) if flt is None or n in flt]
    cl = Claims(ctx)
    cl("acl-names-in-config-order", [o.name for o in acls] != want)
    x = ctx.fresh("x", 0, ALL)
    for o in acls:
        binds_in = sorted({f"interface Ethernet1/{k + 1}" for k, bs in enumerate(layout) for n, d in bs if n == o.name and d == "in"})
        binds_out = sorted({f"interface Ethernet1/{k + 1}" for k, bs in enumerate(layout) for n, d in bs if n == o.name and d == "out"})
        cl(f"{o.name}:input", list(o.input) != binds_in)
        cl(f"{o.name}:output", list(o.output) != binds_out)
        if o.name == "A1":
            cl("A1:type", o.type != "extended")
            body = [l.strip() for l in o.line.split("\n")[1:]]
            cl("A1:items-in-order", Not_(And_(len(body) == 3, len(o.items) == 3)))
            if len(o.items) == 3:
                ace = o.items[0]
                cl("A1:sequence", Not_(ace.line.split()[0] == acl_a[1].split()[0]))
                cl("A1:remark", not (o.items[1].line == "remark note a"))
                kwg = "object-group" if platform == "ios" else "addrgroup"
                cl("A1:third", Not_(o.items[2].line == "deny tcp host " + quads[0][0] + " " + kwg + " G1 eq 80"))
                # the same group referenced a second time (destination of the third entry) carries the same members
                cl("A1:group-members-second-reference", Xor_(in_nets(x, o.items[2].dstaddr.ipnets()),
                                                             Or_(addr_pred(x, quads[3][1], 255), V(x) == V(quads[4][1]))))
                # members of the referenced group, IOS members read as subnet masks
                mem = Or_(addr_pred(x, quads[3][1], 255), V(x) == V(quads[4][1]))
                cl("A1:group-members", Xor_(in_nets(x, ace.srcaddr.ipnets()), mem))
                cl("A1:group-member-count", len(ace.srcaddr.items) != 2)
        else:
            cl("B2:type", o.type != ("standard" if platform == "ios" else "extended"))
            cl("B2:item-count", len(o.items) != 2)
            if len(o.items) == 2:
                cl("B2:first-address", Xor_(in_nets(x, o.items[0].srcaddr.ipnets()), addr_pred(x, quads[1][1], 255)))
    cl("one-group", len(groups) != 1)
    if len(groups) == 1:
        cl("group-name", groups[0].name != "G1")
        cl("group-members", Xor_(in_nets(x, groups[0].ipnets()), Or_(addr_pred(x, quads[3][1], 255), V(x) == V(quads[4][1]))))
    cl.done()
    return None


ORDERS = {}
# (noise position, comment position, name filter)
VARIANTS = [[None, None, None], [0, 2, None], [1, 0, ["A1"]], [2, None, ["B2"]], [None, 0, ["MISSING"]], [0, 0, ["A1", "B2"]]]


def specs(tier, seed, concrete=False):
    rnd = random.Random(seed)
    for n in (3, 4, 5):
        perms = [list(p) for p in itertools.permutations(range(n))]
        if n == 5:
            rnd.shuffle(perms)
            perms = sorted(perms[:(24 if tier == "quick" else 120)])
        ORDERS[n] = perms
    lay = list(range(len(LAYOUTS))) if tier != "quick" else [0, 1, 2, 3, 4, 5]
    shards = []
    n = 0
    for p in ("ios", "nxos"):
        for l in lay:
            nsec = 3 + len(LAYOUTS[l])
            orders = ORDERS[nsec]
            for o in orders:
                # every order of the sections; indent and noise/comment/filter variant cycle (thorough: all variants)
                for v in (VARIANTS if tier != "quick" else [VARIANTS[n % len(VARIANTS)]]):
                    n += 1
                    shards.append({"platform": p, "layout": l, "indent": (1, 2, 4)[n % 3], "order": o, "variant": v})
    # all variants and indents on the two-ACLs-on-one-interface layout in configuration order
    for p in ("ios", "nxos"):
        for v in VARIANTS:
            for i in (1, 2, 4):
                shards.append({"platform": p, "layout": 1, "indent": i, "order": ORDERS[4][0], "variant": v})
    return [Spec("config", h_config, shards, goals=["parsed"], max_paths=6000,
                 describe="acls()/addrgroups() on assembled configurations vs a reference extractor")]
