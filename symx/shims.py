"""Runtime support injected into instrumented modules (prototype v2)."""
from __future__ import annotations

import builtins
import itertools
import re as _re

import z3

from .core import (Ctx, SymInt, SymStr, SymBool, Dec, DigitChar, Unsupported, declen)

PORT_MAX = 65535     # harnesses may shrink the port universe (bound B-U)


def is_sym(x):
    t = type(x)
    if t in (SymInt, SymStr, SymBool, DigitChar):
        return True
    if t is tuple:
        return any(is_sym(i) for i in x)
    return False


def _eq(a, b):
    r = a == b
    return r


# ------------------------------------------------------------------ builtins


class _IntMeta(type):
    def __instancecheck__(cls, x): return builtins.isinstance(x, builtins.int)
    def __subclasscheck__(cls, c): return builtins.issubclass(c, builtins.int)
    def __repr__(cls): return "<class 'int'>"

    def __call__(cls, x=0, base=None):
        t = type(x)
        if t is SymInt:
            return x
        if t is SymBool:
            return SymInt(z3.If(x.z, z3.BitVecVal(1, 64), z3.BitVecVal(0, 64)), (0, 1))
        if t is SymStr:
            if base not in (None, 10):
                raise Unsupported("int(text, base)")
            s = x.strip()
            if type(s) is SymStr and len(s.parts) == 1 and type(s.parts[0]) is Dec:
                return s.parts[0].v
            if type(s) is str:
                return builtins.int(s)
            raise ValueError(f"invalid literal for int() with base 10: {x!r}")
        if t is DigitChar:
            raise Unsupported("int of a numeral's digit")
        if t in (builtins.int, builtins.bool, builtins.float, builtins.str, builtins.bytes):
            return builtins.int(x) if base is None else builtins.int(x, base)
        f = getattr(t, "__int__", None)
        if f is not None:
            return f(x)
        f = getattr(t, "__index__", None)
        if f is not None:
            return f(x)
        return builtins.int(x)


class sx_int(metaclass=_IntMeta):
    @staticmethod
    def from_bytes(b, byteorder="big", *, signed=False):
        b = list(b)
        if all(type(i) is builtins.int for i in b):
            return builtins.int.from_bytes(bytes(b), byteorder, signed=signed)
        if byteorder != "big" or signed:
            raise Unsupported("from_bytes variant")
        acc = 0
        for i in b:
            acc = (acc << 8) | i
        return acc


class _StrMeta(type):
    def __instancecheck__(cls, x): return builtins.isinstance(x, builtins.str)
    def __subclasscheck__(cls, c): return builtins.issubclass(c, builtins.str)
    def __repr__(cls): return "<class 'str'>"

    def __call__(cls, x=""):
        t = type(x)
        if t is SymInt:
            return SymStr([Dec(x)])
        if t is SymStr:
            return x
        if t is SymBool:
            raise Unsupported("str(SymBool)")
        if t in (builtins.str, builtins.int, builtins.bool, type(None), builtins.float):
            return builtins.str(x)
        if t in (list, tuple, dict, set):
            if any(is_sym(i) for i in (x.values() if t is dict else x)):
                return "<container with symbols>"
            return builtins.str(x)
        f = getattr(t, "__str__", None)
        if f is not None and f is not object.__str__:
            return f(x)
        return builtins.str(x)


class sx_str(metaclass=_StrMeta):
    pass


def sx_len(x):
    if type(x) is SymStr:
        return x.symlen()
    return builtins.len(x)


def sx_format(v, spec=""):
    if is_sym(v):
        if spec:
            raise Unsupported("format spec on a symbolic value")
        return sx_str(v)
    return builtins.format(v, spec)


def sx_hash(x):
    if is_sym(x):
        return SymHash(x)
    return type(x).__hash__(x)


class SymHash:
    """Result of x.__hash__() for symbolic x: equal iff the values are equal (no collisions)."""
    def __init__(self, key): self.key = key
    @property
    def __class__(self): return int
    def __eq__(self, o):
        if type(o) is SymHash:
            return self.key == o.key
        if type(o) is int:
            return False
        return NotImplemented
    def __ne__(self, o):
        r = self.__eq__(o)
        return SymBool(z3.Not(r.z)) if type(r) is SymBool else (r if r is NotImplemented else not r)
    def __hash__(self): raise Unsupported("hash(SymHash)")


# ------------------------------------------------------------------ text


class OpaqueText(str):
    """A message whose exact text is irrelevant (numerals glued together); never parsed."""
    def __new__(cls):
        return super().__new__(cls, "<message with symbolic parts>")


def sx_fstring(*pieces):
    parts = []
    for kind, val, conv, spec in pieces:
        if kind == "c":
            parts.append(val)
            continue
        if conv in (ord("r"), ord("a")):
            parts.append(builtins.repr(val))
            continue
        if type(val) is SymInt:
            if spec:
                raise Unsupported("format spec on SymInt")
            parts.append(Dec(val))
        elif type(val) is SymStr:
            if spec:
                raise Unsupported("format spec on SymStr")
            parts.extend(val.parts)
        else:
            s = sx_str(val) if not spec else sx_format(val, spec)
            parts.extend(s.parts if type(s) is SymStr else [s])
    try:
        return SymStr.mk(parts)
    except Unsupported:
        return OpaqueText()


def sx_pct(fmt, args):
    if type(fmt) is not str:
        return fmt % args
    tup = args if type(args) is tuple else (args,)
    probe = [a if type(a) in (int, str, float, bool) else sx_str(a) if not is_sym(a) else a for a in tup]
    if not any(is_sym(a) for a in probe):
        return fmt % args
    pieces, i, k = [], 0, 0
    while i < len(fmt):
        if fmt[i] == "%":
            c = fmt[i + 1]
            if c == "%":
                pieces.append(("c", "%", -1, ""))
            elif c in "sd":
                pieces.append(("v", tup[k], -1, "")); k += 1
            elif c == "r":
                pieces.append(("v", tup[k], ord("r"), "")); k += 1
            else:
                raise Unsupported("% conversion " + c)
            i += 2
        else:
            j = fmt.find("%", i)
            j = len(fmt) if j < 0 else j
            pieces.append(("c", fmt[i:j], -1, ""))
            i = j
    return sx_fstring(*pieces)


def sx_join(sep, items):
    items = list(items)
    if type(sep) is str and all(type(i) is str for i in items):
        return sep.join(items)
    parts = []
    for n, i in enumerate(items):
        if n:
            parts.extend(SymStr.lift(sep).parts)
        parts.extend(SymStr.lift(i).parts)
    return SymStr.mk(parts)


# ------------------------------------------------------------------ boolean merging


def _bool_merge(thunks, is_and):
    ctx = Ctx.cur
    acc = None          # z3: condition under which evaluation reaches the next operand
    last = is_and
    for th in thunks:
        if acc is None:
            v = th()
        else:
            st, v = ctx.eval_under(acc, th)
            if st == "dead":
                break
            if st == "fork":        # ordinary short-circuit semantics with a real decision
                if ctx.fork(acc):
                    v = th()
                    acc = None
                else:
                    return SymBool(z3.BoolVal(not is_and))
        if type(v) is SymBool:
            cont = v.z if is_and else z3.Not(v.z)
            acc = cont if acc is None else z3.And(acc, cont)
            last = v
            continue
        truth = builtins.bool(v)
        if acc is None:
            if truth != is_and:
                return v
            last = v
            continue
        if type(v) is not bool:
            # value of the expression would be `v` or a SymBool depending on acc: only truthiness is safe
            if truth != is_and:
                return SymBool(z3.BoolVal(not is_and)) if False else _TruthOnly(z3.And(acc, z3.BoolVal(False)) if is_and else z3.BoolVal(True), is_and, acc, truth)
            last = v
            continue
        if truth != is_and:
            # evaluation always stops at or before this operand with the short-circuit value
            return SymBool(z3.BoolVal(not is_and))
    if acc is None:
        return last
    if type(last) is not SymBool and type(last) is not bool:
        return _TruthOnly(None, is_and, acc, builtins.bool(last))
    return SymBool(acc) if is_and else SymBool(z3.Not(acc))


class _TruthOnly:
    """Result of and/or whose value is a non-bool object on some valuations: usable in bool context only."""
    def __init__(self, _unused, is_and, acc, last_truth):
        self.z = (z3.And(acc, z3.BoolVal(last_truth)) if is_and else z3.Or(z3.Not(acc), z3.BoolVal(last_truth)))
    def __bool__(self):
        return Ctx.cur.fork(self.z)
    def __getattr__(self, name):
        raise Unsupported("value of and/or with symbolic operands used as an object")


def sx_and(*thunks): return _bool_merge(thunks, True)
def sx_or(*thunks): return _bool_merge(thunks, False)


def sx_not(v):
    if type(v) in (SymBool, _TruthOnly):
        return SymBool(z3.Not(v.z))
    return not v


# ------------------------------------------------------------------ containers


def _any_eq(item, members):
    """item equals one of members: True / False / SymBool (one merged condition instead of a fork per member)"""
    conds = []
    for k in members:
        r = _eq(k, item)
        if type(r) is SymBool:
            conds.append(r.z)
        elif r is NotImplemented:
            continue
        elif r:
            return True
    if not conds:
        return False
    return SymBool(conds[0] if len(conds) == 1 else z3.Or(*conds))


def sx_contains(item, container):
    t = type(container)
    if t is SymSet:
        return container._has(item)
    if t is SymDict:
        return item in container
    if t in (set, frozenset, dict):
        if is_sym(item):
            return _any_eq(item, container)
        return item in container
    if t in (list, tuple):
        if is_sym(item) or any(is_sym(k) for k in container):
            return _any_eq(item, container)
        return item in container
    if t is SymStr:
        return container.__contains__(item)
    if t is str and type(item) is SymStr:
        if any(type(p) is Dec for p in item.parts) and not any(c.isdigit() for c in container):
            return False
        raise Unsupported("symbolic text inside concrete text")
    if t is str and type(item) is DigitChar:
        if not any(c.isdigit() for c in container):
            return False
        if all(d in container for d in "0123456789"):
            return True
        raise Unsupported("numeral digit in a partial digit set")
    return item in container


def sx_get(obj, *args):
    if type(obj) is SymDict:
        return obj.get(*args)
    if isinstance(obj, dict) and is_sym(args[0]):
        for k, v in obj.items():
            if _eq(k, args[0]):
                return v
        return args[1] if len(args) > 1 else None
    return obj.get(*args)


def _all_merged(results):
    """conjunction of bool / SymBool results as ONE value (bool when decided, else a single SymBool)"""
    conds = []
    for r in results:
        if type(r) is SymBool:
            conds.append(r.z)
        elif not r:
            return False
    if not conds:
        return True
    return SymBool(conds[0] if len(conds) == 1 else z3.And(*conds))


def _hashable_concrete(x):
    if is_sym(x) or type(x).__module__ == "ipaddress":
        return False
    t = type(x)
    return t in (int, str, bool, float, bytes, type(None)) or (t is tuple and all(_hashable_concrete(i) for i in x))


class SymSet:
    """Set that may hold symbolic members.  Concrete hashable members live in a dict (O(1) lookups, 65 000 ports are
    fine), everything else in an association list.  Iteration order is unspecified: every order of the symbolic
    part is explored (up to MAX_PERM members); all-concrete sets iterate in CPython's own order."""

    MAX_PERM = 4

    def __init__(self, items=()):
        self.conc = {}
        self.sym = []
        self._runs = None
        for i in (items.items if type(items) is SymSet else items):
            self.add(i)

    @property
    def items(self):
        return list(self.conc) + self.sym

    def _int_runs(self):
        """sorted runs [(lo, hi)] of the concrete int members (for membership tests of a symbolic int)"""
        if self._runs is None:
            xs = sorted(k for k in self.conc if type(k) is int)
            runs, i = [], 0
            while i < len(xs):
                j = i
                while j + 1 < len(xs) and xs[j + 1] - xs[j] <= 1:
                    j += 1
                runs.append((xs[i], xs[j]))
                i = j + 1
            self._runs = runs
        return self._runs

    def _has(self, x):
        """x in self: True / False / SymBool"""
        if type(x) is DigitChar:
            if all(d in self.conc for d in "0123456789"):
                return True
            if not any(d in self.conc for d in "0123456789"):
                return False
            raise Unsupported("numeral digit in a partial digit set")
        if _hashable_concrete(x):
            if x in self.conc:
                return True
            return _any_eq(x, self.sym)
        conds = []
        if type(x) is SymInt:
            lo, hi = x.iv
            for a, b in self._int_runs():
                if b < lo or a > hi:
                    continue
                conds.append(x.z == a if a == b else z3.And(x.z >= a, x.z <= b))
            others = [k for k in self.conc if type(k) is not int]
        else:
            others = list(self.conc)
        r = _any_eq(x, others + self.sym)
        if r is True:
            return True
        if type(r) is SymBool:
            conds.append(r.z)
        if not conds:
            return False
        return SymBool(conds[0] if len(conds) == 1 else z3.Or(*conds))

    def add(self, x):
        if type(x) is DigitChar:
            if not any(type(i) is DigitChar for i in self.sym):
                self.sym.append(x)
            return
        if _hashable_concrete(x):
            if x in self.conc:
                return
            if self.sym and _any_eq(x, [i for i in self.sym if type(i) is not DigitChar]):
                return
            self.conc[x] = None
            self._runs = None
            return
        if self._has(x):                    # one decision, not one per member
            return
        self.sym.append(x)

    def update(self, *others):
        for xs in others:
            # the order in which another symbolic set is poured in is not observable (any later iteration of the
            # result explores every order), so no order fork is needed here
            for x in (xs.items if type(xs) is SymSet else xs):
                self.add(x)

    def discard(self, x):
        if _hashable_concrete(x) and x in self.conc:
            del self.conc[x]
            self._runs = None
            return
        for k, i in enumerate(self.sym):
            if _eq(i, x):
                del self.sym[k]
                return

    def remove(self, x):
        n = len(self)
        self.discard(x)
        if len(self) == n:
            raise KeyError(x)

    def _order(self):
        if not self.sym:
            return list(builtins.set(self.conc))        # CPython's own order for concrete members
        n = len(self.sym)
        if n + len(self.conc) <= 1:
            return self.items
        if n + min(len(self.conc), 1) > self.MAX_PERM or len(self.conc) > 3:
            if len(self.conc) > 3:
                raise Unsupported("iteration over a set mixing symbolic members with many concrete ones")
            raise Unsupported("iteration over a symbolic set of more than 4 elements")
        elems = self.items
        if len(elems) > self.MAX_PERM:
            raise Unsupported("iteration over a symbolic set of more than 4 elements")
        perms = list(itertools.permutations(range(len(elems))))
        ctx = Ctx.cur
        k = ctx.choice(f"setorder#{sum(1 for c in ctx.choices if c.startswith('setorder#'))}", len(perms))
        return [elems[j] for j in perms[k]]

    def __iter__(self): return iter(self._order())
    def __len__(self): return len(self.conc) + len(self.sym)
    def __bool__(self): return bool(self.conc) or bool(self.sym)

    def __contains__(self, x):
        return bool(self._has(x))

    def intersection(self, o): return SymSet([i for i in self.items if sx_contains(i, o)])
    def difference(self, o): return SymSet([i for i in self.items if not sx_contains(i, o)])
    def union(self, o): return SymSet([*self.items, *(o.items if type(o) is SymSet else o)])
    def issubset(self, o): return _all_merged([sx_contains(i, o) for i in self.items])
    def issuperset(self, o): return _all_merged([self._has(i) for i in (o.items if type(o) is SymSet else o)])
    def copy(self): return SymSet(self)
    __and__ = intersection
    __sub__ = difference
    __or__ = union

    def __eq__(self, o):
        if not isinstance(o, (SymSet, set, frozenset)):
            return False
        others = o.items if type(o) is SymSet else list(o)       # order is irrelevant for equality: no order fork
        if not self.sym and type(o) is SymSet and not o.sym:
            return self.conc.keys() == o.conc.keys()
        return _all_merged([sx_contains(i, o) for i in self.items] + [self._has(i) for i in others])

    def __ne__(self, o):
        return sx_not(self.__eq__(o))

    def __le__(self, o): return self.issubset(o)
    def __ge__(self, o): return self.issuperset(o)

    def __hash__(self):
        raise Unsupported("hash(SymSet)")

    def __repr__(self):
        return "SymSet(" + repr(self.items) + ")"


class _SetMeta(type):
    def __instancecheck__(cls, x): return builtins.isinstance(x, (builtins.set, SymSet))
    def __repr__(cls): return "<class 'set'>"

    def __call__(cls, it=()):
        return SymSet(it)


class sx_set(metaclass=_SetMeta):
    pass


def sx_sorted(it, *, key=None, reverse=False):
    if type(it) is SymSet:
        it = it.items           # sorting makes the order irrelevant
    return builtins.sorted(it, key=key, reverse=reverse)


class SymDict(dict):
    """dict that may hold symbolic keys: ONE association list in insertion order (Python dicts are ordered and the
    library relies on it, e.g. `list(shading_d)`); lookups fork on key equality; concrete-only use stays O(1)."""

    def __init__(self, *a, **kw):
        super().__init__()
        self._pairs = []            # [key, value] in insertion order (all keys)
        self._has_sym = False
        src = a[0] if a else {}
        for k, v in (src.items() if hasattr(src, "items") else src):
            self[k] = v
        for k, v in kw.items():
            self[k] = v

    def _find(self, k):
        if not self._has_sym and not is_sym(k):
            if not dict.__contains__(self, k):
                return -1
            for i, p in enumerate(self._pairs):
                if p[0] == k:
                    return i
            return -1
        for i, p in enumerate(self._pairs):
            if _eq(p[0], k):
                return i
        return -1

    def __setitem__(self, k, v):
        i = self._find(k)
        if i >= 0:
            self._pairs[i][1] = v
            key = self._pairs[i][0]
            if not is_sym(key) and dict.__contains__(self, key):
                dict.__setitem__(self, key, v)      # keep the C-level view (``**d``, json) in step
            return
        self._pairs.append([k, v])
        if is_sym(k):
            self._has_sym = True
        else:
            try:
                dict.__setitem__(self, k, v)        # concrete keys also live in the real dict (C-level consumers, fast lookups)
            except TypeError:
                self._has_sym = True

    def __getitem__(self, k):
        i = self._find(k)
        if i < 0:
            raise KeyError(k)
        return self._pairs[i][1]

    def get(self, k, d=None):
        i = self._find(k)
        return d if i < 0 else self._pairs[i][1]

    def setdefault(self, k, d=None):
        i = self._find(k)
        if i >= 0:
            return self._pairs[i][1]
        self[k] = d
        return d

    def __contains__(self, k):
        return self._find(k) >= 0

    def keys(self): return [p[0] for p in self._pairs]
    def values(self): return [p[1] for p in self._pairs]
    def items(self): return [(p[0], p[1]) for p in self._pairs]
    def __iter__(self): return iter(self.keys())
    def __reversed__(self): return iter(list(reversed(self.keys())))
    def __len__(self): return len(self._pairs)
    def __bool__(self): return bool(self._pairs)
    def copy(self): return SymDict(self.items())
    def __copy__(self): return self.copy()

    def __deepcopy__(self, memo):
        import copy as _copy
        new = SymDict()
        memo[id(self)] = new
        for k, v in self._pairs:
            new[_copy.deepcopy(k, memo)] = _copy.deepcopy(v, memo)
        return new

    def __reduce__(self):
        return (SymDict, (self.items(),))

    def __delitem__(self, k):
        self.pop(k)

    def pop(self, k, *d):
        i = self._find(k)
        if i < 0:
            if d:
                return d[0]
            raise KeyError(k)
        key, v = self._pairs.pop(i)
        if dict.__contains__(self, key) if not is_sym(key) else False:
            dict.__delitem__(self, key)
        return v

    def clear(self):
        self._pairs = []
        self._has_sym = False
        dict.clear(self)

    def update(self, *a, **kw):
        for k, v in SymDict(*a, **kw).items():
            self[k] = v

    def __eq__(self, o):
        if not isinstance(o, dict):
            return False
        mine, theirs = self.items(), (o.items() if isinstance(o, SymDict) else list(o.items()))
        if len(mine) != len(theirs):
            return False
        for k, v in mine:
            hit = [vv for kk, vv in theirs if _eq(kk, k)]
            if not hit or not _eq(hit[0], v):
                return False
        return True

    def __ne__(self, o):
        return not self.__eq__(o)

    def __repr__(self):
        return "SymDict(" + repr(self.items()) + ")"


def sx_mkdict(keys, values):
    d = SymDict()
    for k, v in zip(keys, values):
        d[k] = v
    return d


def sx_dictcomp(pairs):
    d = SymDict()
    for k, v in pairs:
        d[k] = v
    return d


class SymRange:
    def __init__(self, *a):
        self.step = 1
        if len(a) == 1:
            self.start, self.stop = 0, a[0]
        else:
            self.start, self.stop = a[0], a[1]
            if len(a) == 3:
                self.step = a[2]
                if type(self.step) is not int or self.step <= 0:
                    raise Unsupported("range with symbolic or non-positive step")

    LIMIT = 70000

    def __iter__(self):
        i, n = self.start, 0
        while i < self.stop:
            yield i
            i = i + self.step
            n += 1
            if n > self.LIMIT:
                raise Unsupported("symbolic range longer than the limit")



def sx_range(*a):
    if any(type(i) is SymInt for i in a):
        return SymRange(*a)
    return builtins.range(*a)


# ------------------------------------------------------------------ regular expressions


class ReShim:
    """`re` on symbolic text through representative strings (see DESIGN 2.2)."""

    REPS = (lambda n: str(7 + n % 3), lambda n: "7%d1" % (n % 10), lambda n: "7012345%d89" % (n % 10))

    def __getattr__(self, name):
        return getattr(_re, name)

    @staticmethod
    def _static_ok(pattern):
        p = _re.sub(r"\\\\", "", pattern)
        p = _re.sub(r"\\[dDsSwWbBAZ]", "", p)
        if any(c.isdigit() for c in p):
            raise Unsupported("regex with literal digits / bounded repetition on symbolic text")

    def _reps(self, s):
        out = []
        for mk in self.REPS:
            text, spans, n = "", [], 0
            for p in s.parts:
                if type(p) is str:
                    text += p
                else:
                    r = mk(n)
                    spans.append((len(text), len(text) + len(r), p))
                    text += r
                    n += 1
            out.append((text, spans))
        return out

    @staticmethod
    def _sig(text, spans, a, b):
        if a < 0:
            return None
        sig, pos = [], a
        for i, (s, e, _) in enumerate(spans):
            if e <= a or s >= b:
                continue
            if s < a or e > b:
                return ("CUT",)
            sig.append(text[pos:s]); sig.append(i); pos = e
        sig.append(text[pos:b])
        return tuple(sig)

    @staticmethod
    def _slice(text, spans, a, b):
        parts, pos = [], a
        for (s, e, atom) in spans:
            if e <= a or s >= b:
                continue
            if s < a or e > b:
                raise Unsupported("regex group cuts a numeral")
            parts.append(text[pos:s]); parts.append(atom); pos = e
        parts.append(text[pos:b])
        return SymStr.mk(parts)

    def _matches(self, pattern, string, flags, finder, existence_only=False):
        self._static_ok(pattern)
        rx = _re.compile(pattern, flags)
        sigs, first = [], None
        for text, spans in self._reps(string):
            ms = finder(rx, text)
            if existence_only and rx.groups == 0:
                # match()/search() of a group-free pattern: only whether it matches is structure; the matched text is
                # sliced lazily (and refused then, if it would cut a numeral)
                sigs.append([bool(ms)])
            else:
                sigs.append([tuple(self._sig(text, spans, *m.span(g)) for g in range(rx.groups + 1)) for m in ms])
            if first is None:
                first = (text, spans, ms)
        if any(s != sigs[0] for s in sigs[1:]) or any("CUT" in str(s) for s in sigs[0]):
            raise Unsupported("regex outcome depends on the digits/length of a numeral")
        return rx, first

    def findall(self, pattern, string, flags=0):
        if type(string) is not SymStr:
            return _re.findall(pattern, string, flags)
        rx, (text, spans, ms) = self._matches(pattern, string, flags, lambda r, t: list(r.finditer(t)))
        out = []
        for m in ms:
            grp = lambda g: self._slice(text, spans, *m.span(g)) if m.span(g)[0] >= 0 else ""
            out.append(grp(0) if rx.groups == 0 else grp(1) if rx.groups == 1 else tuple(grp(g) for g in range(1, rx.groups + 1)))
        return out

    def _one(self, pattern, string, flags, how):
        rx, (text, spans, ms) = self._matches(pattern, string, flags, lambda r, t: [m for m in [getattr(r, how)(t)] if m],
                                              existence_only=True)
        return SymMatch(self, text, spans, ms[0]) if ms else None

    def match(self, pattern, string, flags=0):
        return _re.match(pattern, string, flags) if type(string) is not SymStr else self._one(pattern, string, flags, "match")

    def search(self, pattern, string, flags=0):
        return _re.search(pattern, string, flags) if type(string) is not SymStr else self._one(pattern, string, flags, "search")

    def fullmatch(self, pattern, string, flags=0):
        return _re.fullmatch(pattern, string, flags) if type(string) is not SymStr else self._one(pattern, string, flags, "fullmatch")

    def sub(self, pattern, repl, string, count=0, flags=0):
        if type(string) is not SymStr:
            return _re.sub(pattern, repl, string, count, flags)
        if type(repl) is not str or count:
            raise Unsupported("re.sub with callable/limited replacement on symbolic text")
        rx, (text, spans, ms) = self._matches(pattern, string, flags, lambda r, t: list(r.finditer(t)))
        parts, pos = [], 0
        for m in ms:
            a, b = m.span(0)
            parts.extend(SymStr.lift(self._slice(text, spans, pos, a)).parts if a > pos else [])
            piece, i = [], 0
            while i < len(repl):                      # expand \1 .. \9 and \g<n>
                if repl[i] == "\\" and i + 1 < len(repl) and repl[i + 1].isdigit():
                    g = int(repl[i + 1]); i += 2
                    if m.span(g)[0] >= 0:
                        piece.extend(SymStr.lift(self._slice(text, spans, *m.span(g))).parts)
                elif repl[i] == "\\":
                    raise Unsupported("escape in re.sub replacement")
                else:
                    piece.append(repl[i]); i += 1
            parts.extend(piece)
            pos = b
        if pos < len(text):
            parts.extend(SymStr.lift(self._slice(text, spans, pos, len(text))).parts)
        return SymStr.mk(parts)


class SymMatch:
    def __init__(self, shim, text, spans, m):
        self._s, self._t, self._sp, self._m = shim, text, spans, m

    def group(self, *gs):
        gs = gs or (0,)
        r = tuple(self._s._slice(self._t, self._sp, *self._m.span(g)) if self._m.span(g)[0] >= 0 else None for g in gs)
        return r[0] if len(r) == 1 else r

    def groups(self, default=None):
        return tuple(self.group(g) if self._m.span(g)[0] >= 0 else default for g in range(1, self._m.re.groups + 1))

    def __bool__(self):
        return True


def sx_enter(name):
    Ctx.cur.entered.add(name) if Ctx.cur is not None and Ctx.cur.symbolic else None


def shim_table():
    return dict(
        int=sx_int, str=sx_str, len=sx_len, set=sx_set, range=sx_range, format=sx_format, sorted=sx_sorted,
        SX_fstring=sx_fstring, SX_pct=sx_pct, SX_join=sx_join, SX_hash=sx_hash, SX_contains=sx_contains,
        SX_get=sx_get, SX_and=sx_and, SX_or=sx_or, SX_not=sx_not, SX_mkdict=sx_mkdict, SX_enter=sx_enter, SX_dictcomp=sx_dictcomp,
    )
