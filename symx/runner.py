"""Driver of one property check: shards over processes, vacuity twin, differential validation,
replay of counterexamples on the uninstrumented library, known findings, evidence."""
from __future__ import annotations

import hashlib
import importlib
import json
import multiprocessing as mp
import os
import random
import subprocess
import sys
import time

VERIF = os.path.dirname(os.path.dirname(os.path.abspath(__file__)))
REPO = os.environ.get("VERIF_REPO", "/repo")
NPROC = int(os.environ.get("VERIF_NPROC", "16"))
PY = sys.executable

EXIT_OK, EXIT_VIOLATION, EXIT_INCONCLUSIVE = 0, 1, 2


class Spec:
    """One harness of a property: the function, its structural shards and its reach goals."""

    def __init__(self, name, fn, shards, goals=(), max_paths=4000, max_seconds=900, describe="",
                 validate=True, setup=None):
        self.name, self.fn, self.shards, self.goals = name, fn, list(shards), tuple(goals)
        self.max_paths, self.max_seconds, self.describe, self.validate = max_paths, max_seconds, describe, validate
        self.setup = setup


_SPECS = {}


def _clear_caches():
    from . import shims
    shims.PORT_MAX = 65535
    try:            # class-level memo of the (instrumented) stdlib: must not carry symbolic keys from one path to the next
        import ipaddress
        for cls in (ipaddress._BaseV4, ipaddress.IPv4Address, ipaddress.IPv4Network, ipaddress.IPv4Interface):
            if "_netmask_cache" in cls.__dict__:
                cls._netmask_cache = shims.SymDict()
    except Exception:
        pass
    try:
        from cisco_acl.wildcard import Wildcard
        cc = getattr(Wildcard.ipnets, "cache_clear", None)
        if cc:
            cc()
    except Exception:
        pass


def _run_shard(job):
    from .explore import explore
    sname, idx, pins, tier, twin = job
    spec = _SPECS[sname]
    t = time.time()
    try:
        res = explore(spec.fn, pins=pins, tier=tier, twin=twin, max_paths=spec.max_paths, max_seconds=spec.max_seconds,
                      keep_paths=not twin, setup=spec.setup or _clear_caches)
    except BaseException as e:            # never let a worker die: an engine crash is an inconclusive shard
        import traceback
        from .explore import ShardResult
        res = ShardResult()
        res.inconclusive = "engine crash: " + type(e).__name__ + ": " + str(e)[:300] + " | " + traceback.format_exc()[-700:]
    return sname, idx, pins, twin, res, time.time() - t


# ------------------------------------------------------------------ concrete side


def concrete_batch(modname, tier, jobs, nproc=None, seed=0):
    """Run jobs [{spec, choices, values}] on the UNINSTRUMENTED library in fresh interpreters."""
    if not jobs:
        return []
    nproc = max(1, min(nproc or NPROC, (len(jobs) + 19) // 20))
    chunks = [jobs[i::nproc] for i in range(nproc)]
    env = dict(os.environ)
    env["PYTHONPATH"] = os.pathsep.join([REPO, VERIF, os.path.join(VERIF, ".deps")])
    env["VERIF_CONCRETE"] = "1"
    procs = []
    for ch in chunks:
        p = subprocess.Popen([PY, "-m", "symx.cworker", modname, tier, str(seed)], stdin=subprocess.PIPE, stdout=subprocess.PIPE,
                             stderr=subprocess.PIPE, text=True, env=env, cwd=VERIF)
        procs.append((p, ch))
    outs = [None] * len(jobs)
    payloads = []
    for p, ch in procs:
        payloads.append("\n".join(json.dumps(j) for j in ch) + "\n")
    import threading
    results = [None] * len(procs)

    def feed(i):
        p, ch = procs[i]
        results[i] = p.communicate(payloads[i])
    th = [threading.Thread(target=feed, args=(i,)) for i in range(len(procs))]
    for t in th:
        t.start()
    for t in th:
        t.join()
    for i, (p, ch) in enumerate(procs):
        so, se = results[i]
        lines = [l for l in so.splitlines() if l.startswith("{")]
        for k, j in enumerate(ch):
            o = json.loads(lines[k]) if k < len(lines) else dict(error="worker died: " + se[-400:])
            outs[i + k * nproc] = o
    return outs


# ------------------------------------------------------------------ known findings


def load_known():
    path = os.path.join(VERIF, "known_findings.json")
    if not os.path.exists(path):
        return []
    return json.load(open(path)).get("findings", [])


def match_known(known, prop, v):
    for k in known:
        if k.get("property") != prop:
            continue
        if k.get("harness") and k["harness"] != v["spec"]:
            continue
        if k.get("label") and k["label"] != v["label"]:
            continue
        if k.get("labels") and v["label"] not in k["labels"]:
            continue
        ok = True
        for name, allowed in (k.get("when") or {}).items():
            if v["choices"].get(name) not in allowed:
                ok = False
                break
        if ok and k.get("expr"):
            try:
                ok = bool(eval(k["expr"], {"__builtins__": {}}, dict(c=v["choices"], v=v["values"], len=len, any=any, all=all, abs=abs)))
            except Exception:
                ok = False
        if ok:
            return k
    return None


# ------------------------------------------------------------------ main


def _order_dependent(v):
    return any(k.startswith("setorder#") for k in v["choices"])


def _sig(v):
    """Group counterexamples: same harness, label and structural choices (set-order choices of the engine are not
    structure of the input: all orders of one input fall into one group)."""
    return json.dumps([v["spec"], v["label"], {k: x for k, x in v["choices"].items() if not k.startswith("setorder#")}],
                      sort_keys=True)


def run_property(modname, tier="quick", only=None, max_shards=None, verbose=False, write_evidence=True):
    t0 = time.time()
    seed = int(os.environ.get("VERIF_SEED", "0") or 0)
    from . import loader
    loader.install(REPO)
    import cisco_acl  # noqa: F401  (instrumented; imported before forking)
    import cisco_acl.functions  # noqa: F401
    mod = importlib.import_module("harness." + modname)
    prop = mod.PROPERTY
    specs = [s for s in mod.specs(tier, seed) if not only or s.name in only]
    _SPECS.clear()
    for s in specs:
        _SPECS[s.name] = s
    # ---- oracle lemmas (closed forms used instead of quantifiers) are re-proved on every run
    lemma_log = []
    problems = []          # reasons for an inconclusive verdict
    if hasattr(mod, "lemmas"):
        import z3
        for name, formula in mod.lemmas():
            s = z3.Solver()
            s.set("timeout", 120000)
            s.add(formula)
            tl = time.time()
            res = str(s.check())
            lemma_log.append(dict(lemma=name, result=res, solver_s=round(time.time() - tl, 3)))
            if res != "unsat":
                problems.append(f"oracle lemma not proved ({res}): {name}")
    rnd = random.Random(seed)
    jobs = []
    for s in specs:
        shards = list(s.shards)
        if max_shards and len(shards) > max_shards:
            shards = rnd.sample(shards, max_shards)
        for i, pins in enumerate(shards):
            jobs.append((s.name, i, pins, tier, False))
        if shards:
            jobs.append((s.name, -1, shards[0], tier, True))      # vacuity twin on the first shard
    # heavy shards first when the module tells us, otherwise keep order
    agg = {s.name: dict(shards=0, paths=0, feasible=0, decisions=0, claims=0, violations=[], reached=set(),
                        inconclusive=[], paths_data=[], twin_sat=0, cpu_s=0.0) for s in specs}
    stats_tot = dict(paths=0, forks=0, fork_checks=0, verdict_checks=0, solver_s=0.0, forced=0, fast=0, cache_hits=0)
    entered = set()
    import logging
    logging.disable(logging.CRITICAL)      # library warnings carry symbolic text; harnesses that judge log records re-enable
    ctxmp = mp.get_context("fork")
    with ctxmp.Pool(min(NPROC, max(1, len(jobs)))) as pool:
        for sname, idx, pins, twin, res, dt in pool.imap_unordered(_run_shard, jobs, chunksize=1):
            a = agg[sname]
            a["cpu_s"] += dt
            if twin:
                a["twin_sat"] += len(res.violations)
                if res.inconclusive and not res.violations:
                    a["inconclusive"].append("twin: " + res.inconclusive)
                continue
            a["shards"] += 1
            a["paths"] += res.stats.get("paths", 0)
            a["feasible"] += res.feasible_paths
            a["claims"] += res.claims
            a["decisions"] += res.stats.get("forks", 0) + res.stats.get("forced", 0)
            a["reached"] |= res.reached
            for k in stats_tot:
                stats_tot[k] += res.stats.get(k, 0)
            entered |= res.entered
            if res.inconclusive:
                a["inconclusive"].append(res.inconclusive)
            for v in res.violations:
                v["spec"] = sname
                a["violations"].append(v)
            for p in res.paths:
                p["spec"] = sname
                a["paths_data"].append(p)
            if verbose:
                print(f"  shard {sname}#{idx} paths={res.stats.get('paths')} viol={len(res.violations)} "
                      f"{'INCONCLUSIVE ' + res.inconclusive if res.inconclusive else ''} {dt:.1f}s pins={json.dumps(pins)[:400]}", flush=True)
    explore_s = time.time() - t0

    for s in specs:
        a = agg[s.name]
        for r in a["inconclusive"][:5]:
            problems.append(f"{s.name}: {r}")
        if len(a["inconclusive"]) > 5:
            problems.append(f"{s.name}: ... {len(a['inconclusive'])} inconclusive shards in all")
        missing = [g for g in s.goals if g not in a["reached"]]
        if missing and not max_shards:
            problems.append(f"{s.name}: reach goals never hit: {missing}")
        if a["shards"] and a["claims"] == 0:
            problems.append(f"{s.name}: no claim was ever evaluated on a feasible path (vacuous)")
        if a["shards"] and a["twin_sat"] == 0:
            problems.append(f"{s.name}: vacuity twin (bad := True) found no satisfiable path")

    # ---- differential validation of explored paths against the real library
    cap = int(os.environ.get("VERIF_VALIDATE_CAP", "4000" if tier == "quick" else "12000"))
    vjobs = []
    for s in specs:
        if s.validate:
            vjobs.extend(agg[s.name]["paths_data"])
    if len(vjobs) > cap:
        vjobs = random.Random(seed + 1).sample(vjobs, cap)
    t1 = time.time()
    vouts = concrete_batch(modname, tier, [dict(spec=j["spec"], choices=j["choices"], values=j["values"]) for j in vjobs], seed=seed)
    agree = order_mismatch = 0
    mismatches = []
    for j, o in zip(vjobs, vouts):
        if "error" in o:
            mismatches.append(dict(job=j, real=o))
        elif o["observed"] == j["observed"]:
            agree += 1
        elif _order_dependent(j):
            order_mismatch += 1          # the path assumed a set order this CPython does not exhibit for that model
        else:
            mismatches.append(dict(job=j, real=o))
    validate_s = time.time() - t1
    if mismatches:
        problems.append(f"engine/library mismatch on {len(mismatches)} of {len(vjobs)} validated paths; first: "
                        + json.dumps(mismatches[0])[:1500])

    # ---- replay of counterexamples
    known = load_known()
    groups = {}
    for s in specs:
        for v in agg[s.name]["violations"]:
            groups.setdefault(_sig(v), []).append(v)
    rjobs = []
    per_group = int(os.environ.get("VERIF_REPLAY_PER_GROUP", "60"))
    variants = getattr(mod, "replay_variants", None)
    for sig, vs in groups.items():
        for n_v, v in enumerate(vs[:per_group]):
            rjobs.append(v)
            if variants is not None and n_v < 8:
                # e.g. a counterexample found in a shrunk port universe is transported to the real universe
                for alt in variants(v):
                    rjobs.append(dict(v, values=alt, transported=True))
    routs = concrete_batch(modname, tier, [dict(spec=j["spec"], choices=j["choices"], values=j["values"]) for j in rjobs], seed=seed)
    confirmed_by_group, errors_by_group = {}, {}
    for v, o in zip(rjobs, routs):
        sig = _sig(v)
        if "error" in o:
            errors_by_group.setdefault(sig, []).append(o["error"])
            continue
        if o["violated"] and o.get("assumed_ok", True) and (not v.get("transported") or v["label"] in o["violated"]):
            v["concrete"] = o
            confirmed_by_group.setdefault(sig, []).append(v)
    new_violations, known_hits, unconfirmed = [], {}, []
    for sig, vs in groups.items():
        conf = confirmed_by_group.get(sig)
        if not conf:
            unconfirmed.append((vs[0], errors_by_group.get(sig, [])[:1]))
            continue
        v = conf[0]
        k = match_known(known, prop, v)
        if k is not None:
            known_hits.setdefault(k["what"], []).append(v)
        else:
            new_violations.append(v)
    order_only = [u for u in unconfirmed if _order_dependent(u[0]) and not u[1]]
    unconfirmed = [u for u in unconfirmed if not (_order_dependent(u[0]) and not u[1])]
    for v, err in unconfirmed:
        problems.append(f"{v['spec']}: counterexample for claim {v['label']!r} did not reproduce on the real library "
                        f"(encoding suspect) choices={v['choices']} values={v['values']} {err}")

    # ---- report
    replay_paths = []
    for v in new_violations[:40]:
        d = dict(property=prop, module=modname, harness=v["spec"], label=v["label"], tier=tier, seed=seed, choices=v["choices"],
                 values=v["values"], observed_symbolic=v["observed"], concrete=v.get("concrete"))
        digest = hashlib.sha1(json.dumps(d, sort_keys=True).encode()).hexdigest()[:16]
        rdir = os.path.join(VERIF, "replays", prop)
        os.makedirs(rdir, exist_ok=True)
        path = os.path.join(rdir, digest + ".json")
        with open(path, "w") as f:
            json.dump(d, f, indent=1, sort_keys=True)
        replay_paths.append(path)
    for what in known_hits:
        print(f"KNOWN-FINDING: property={prop} {what}")
    # group new violations by (harness,label) for a readable summary
    for v, path in list(zip(new_violations, replay_paths))[:40]:
        print(f"VIOLATION property={prop} replay={path}")
        print(f"   harness={v['spec']} claim={v['label']} choices={json.dumps(v['choices'])[:300]} "
              f"values={json.dumps(v['values'])[:200]}")
    if len(new_violations) > 40:
        print(f"   ... {len(new_violations) - 40} more violation groups (replay files written)")

    total_paths = sum(a["feasible"] for a in agg.values())
    samples = []
    for s in specs:
        for p in agg[s.name]["paths_data"][:2]:
            samples.append(dict(harness=s.name, choices=p["choices"], model=p["values"], observed=p["observed"]))
    wall = time.time() - t0
    bounds = getattr(mod, "BOUNDS", "")
    evidence = dict(
        property_id=prop, tier=tier, seed=seed, level="model_checking",
        coverage=dict(
            states=total_paths, transitions=sum(a["decisions"] for a in agg.values()),
            traces_validated_against_impl=agree, samples=samples[:12],
            evaluations=total_paths, distinct_nontrivial=sum(a["shards"] for a in agg.values()),
            rule="one evaluation = one feasible symbolic path of the real code (covers every value of the symbolic "
                 "inputs satisfying its path condition); distinct_nontrivial = number of distinct structural shards "
                 "explored to exhaustion",
            exhaustive=not problems,
            explanation="bounded symbolic execution (symx over z3) of the library's own source; every feasible path "
                        "of every structural shard is explored and each claim's negation is decided by the solver",
            functions_encoded=sorted(entered), bounds=bounds,
            harnesses={s.name: dict(describe=s.describe, shards=agg[s.name]["shards"], paths=agg[s.name]["feasible"],
                                    claims_decided=agg[s.name]["claims"], reach_goals=sorted(agg[s.name]["reached"]),
                                    vacuity_twin_sat=agg[s.name]["twin_sat"], cpu_s=round(agg[s.name]["cpu_s"], 1),
                                    counterexamples=len(agg[s.name]["violations"])) for s in specs},
            queries=dict(fork_checks=stats_tot["fork_checks"], verdict_checks=stats_tot["verdict_checks"],
                         decided_by_interval_facts=stats_tot["fast"], cache_hits=stats_tot["cache_hits"]),
            lemmas=lemma_log, solver_s=round(stats_tot["solver_s"], 2), solver="z3 " + _z3v(),
            paths_validated=len(vjobs), validation_mismatches=len(mismatches),
            validation_skipped_set_order_not_exhibited=order_mismatch,
            counterexamples_replayed=len(rjobs), counterexample_groups=len(groups),
            order_dependent_counterexamples_not_reproduced_on_this_cpython=len(order_only),
            known_findings_hit=sorted(known_hits),
            known_findings_claims={w[:60]: sorted({x['label'] for x in vs}) for w, vs in known_hits.items()}, inconclusive=problems,
            explore_wall_s=round(explore_s, 1), validate_wall_s=round(validate_s, 1),
            repo=REPO, processes=NPROC,
        ),
        assumptions=list(getattr(mod, "ASSUMPTIONS", [])) + [
            "z3 is correct; symx proxies model Python int/str semantics (validated per path against the real library)",
            "hash equality = structural equality; set iteration order unspecified",
            "regex results on symbolic text do not depend on the digits of numerals (checked with 3 representatives)"],
        wall_s=round(wall, 2), violations=len(new_violations),
    )
    if write_evidence and not only and not max_shards and not os.environ.get('VERIF_NO_EVIDENCE'):
        os.makedirs(os.path.join(VERIF, "evidence"), exist_ok=True)
        with open(os.path.join(VERIF, "evidence", prop + ".json"), "w") as f:
            json.dump(evidence, f, indent=1, sort_keys=True, default=str)
    print(f"[{prop} {tier}] harnesses={len(specs)} shards={sum(a['shards'] for a in agg.values())} paths={total_paths} "
          f"claims={sum(a['claims'] for a in agg.values())} solver_queries={stats_tot['fork_checks'] + stats_tot['verdict_checks']} "
          f"solver_s={stats_tot['solver_s']:.1f} validated={agree}/{len(vjobs)} counterexample_groups={len(groups)} "
          f"known={len(known_hits)} new={len(new_violations)} wall={wall:.1f}s")
    for p in problems[:30]:
        print("INCONCLUSIVE:", p[:2000])
    if new_violations:
        return EXIT_VIOLATION
    if problems:
        return EXIT_INCONCLUSIVE
    return EXIT_OK


def _z3v():
    try:
        import z3
        return z3.get_version_string()
    except Exception:
        return "?"


def replay_file(path):
    d = json.load(open(path))
    outs = concrete_batch(d["module"], d.get("tier", "quick"),
                          [dict(spec=d["harness"], choices=d["choices"], values=d["values"])], nproc=1, seed=d.get("seed", 0))
    o = outs[0]
    print(json.dumps(dict(property=d["property"], harness=d["harness"], claim=d["label"], choices=d["choices"],
                          values=d["values"], result=o), indent=1))
    if "error" in o:
        return EXIT_INCONCLUSIVE
    return EXIT_VIOLATION if o["violated"] else EXIT_OK
