"""symx core: symbolic proxies over z3 and the per-path execution context.

Nothing here knows about cisco_acl.  All control-flow exceptions derive from BaseException so that
library code (`except ValueError`, `except Exception`) can never swallow them.
"""
from __future__ import annotations

import time
import z3

W = 64                      # width of every symbolic integer (two's complement)
LIM = 1 << 62               # interval guard: Python ints do not wrap, ours must never get close


class EngineAbort(BaseException):
    """Base of engine control flow."""


class Unsupported(EngineAbort):
    """An operation the engine cannot model soundly: the run is inconclusive."""


class Budget(EngineAbort):
    """Path / depth / time budget exhausted: the run is inconclusive."""


class NeedFork(EngineAbort):
    """Raised inside eval_under() when a two-sided decision would be needed."""


class Infeasible(EngineAbort):
    """The current path condition is unsatisfiable (harness assumption excluded the path)."""


# ------------------------------------------------------------------ context


class Ctx:
    """Symbolic execution context for ONE path; the explorer re-creates per-path state."""

    cur: "Ctx" = None
    symbolic = True

    def __init__(self, max_depth=200000, pins=None, twin=False, tier="quick"):
        self.solver = z3.Solver()
        self.full_timeout = int(__import__("os").environ.get("VERIF_SOLVER_TIMEOUT_MS", "180000"))
        self.quick_timeout = int(__import__("os").environ.get("VERIF_SOLVER_QUICK_MS", "300"))
        self.extra_stack = []         # temporary assumptions of eval_under / extra-model search (not part of pc)
        self._last = self.solver      # the solver object that answered the last check (for model())
        self.max_depth = max_depth
        self.pins = dict(pins or {})  # structural choices fixed for this shard, BY VALUE
        self.twin = twin              # vacuity twin: every claim is replaced by `True`
        self.tier = tier
        self.claims_evaluated = 0
        self.stats = dict(paths=0, forks=0, fork_checks=0, verdict_checks=0, solver_s=0.0,
                          forced=0, fast=0, cache_hits=0)
        self.entered = set()          # library functions executed (SX_enter)
        self.reached = set()          # reach goals hit on satisfiable paths

    # ---- per path
    def start_path(self, prefix):
        self.prefix = list(prefix)    # list of decisions to replay: bool or ("c", k)
        self.pos = 0
        self.decisions = []
        self.alternatives = []        # prefixes to schedule, produced on this path
        self.pc = []
        self.extra_stack = []
        self.known = {}               # cond id -> (cond, bool)  (keeps cond alive!)
        self.model_cache = None
        self.no_fork = 0
        self.vars = {}                # name -> z3 var
        self.bounds = {}              # z3 var id -> [lo, hi] from unit facts (interval fast path)
        self.choices = {}             # name -> value (picks by value, raw choices by index)
        self.no_validation = False    # set by harnesses whose symbolic world differs from the real one by design
        self.found = []               # violations found on this path: (label, model values, observables)
        self.obs = []                 # (name, value) observables for differential validation
        self.path_reached = set()
        self.solver.reset()

    # ---- inputs
    def fresh(self, name, lo=None, hi=None):
        if name in self.vars:
            raise Unsupported(f"duplicate symbolic name {name}")
        v = z3.BitVec(name, W)
        self.vars[name] = v
        self.bounds[v.get_id()] = [-(1 << 63), (1 << 63) - 1]
        s = SymInt(v, (lo if lo is not None else -LIM + 1, hi if hi is not None else LIM - 1))
        if lo is not None:
            self.assume(v >= lo)
        if hi is not None:
            self.assume(v <= hi)
        return s

    def choice(self, name, n):
        """Structural n-ary choice: no solver involved, every alternative is scheduled."""
        if self.pos < len(self.prefix):
            d = self.prefix[self.pos]
            assert isinstance(d, tuple) and d[0] == "c", "replay misaligned at choice " + name
            k = d[1]
        else:
            k = 0
            for alt in range(n - 1, 0, -1):
                self.alternatives.append(self.decisions + [("c", alt)])
            self.prefix.append(("c", 0))
        self.pos += 1
        self.decisions.append(("c", k))
        self.choices[name] = k
        return k

    def pick(self, name, options):
        """Structural choice among `options`, recorded BY VALUE; a shard may pin it."""
        options = list(options)
        if name in self.pins:
            want = self.pins[name]
            for o in options:
                if jnorm(o) == want:
                    self.choices[name] = want
                    return o
            raise Unsupported(f"pinned value {want!r} for {name!r} is not among the options")
        o = options[self.choice(name, len(options))]
        self.choices[name] = jnorm(o)
        return o

    def claim(self, label, bad):
        """Assert that `bad` (the violation condition) is unsatisfiable on this path."""
        self.claims_evaluated += 1
        bad = z3.BoolVal(True) if self.twin else _zb(bad)
        if type(bad) is bool:
            bad = z3.BoolVal(bad)
        if z3.is_false(z3.simplify(bad)):
            return
        if self.check(bad, kind="verdict_checks"):
            m = self._last.model()
            self.found.append((label, m))
            if any(k.startswith("setorder#") for k in self.choices):
                # the counterexample needs a particular set iteration order: collect a few more witnesses of the
                # same path so that the replay can find one whose order real CPython exhibits
                self.solver.push()
                self.solver.add(bad)
                n_extra = len(self.extra_stack)
                self.extra_stack.append(bad)
                for _ in range(5):
                    blk = z3.Or(*[v != m.eval(v, model_completion=True) for v in self.vars.values()]) if self.vars else None
                    if blk is None:
                        break
                    self.solver.add(blk)
                    self.extra_stack.append(blk)
                    if not self.check(kind="verdict_checks"):
                        break
                    m = self._last.model()
                    self.found.append((label, m))
                del self.extra_stack[n_extra:]
                self.solver.pop()

    def assume(self, c):
        c = _zb(c)
        self._note_bounds(c)
        self.pc.append(c)
        self.solver.add(c)
        self.model_cache = None

    assume_z3 = assume

    def claims(self, pairs):
        """Several claims decided by ONE query (their disjunction); individual queries only if it is sat."""
        pairs = [(l, z3.BoolVal(b) if type(b) is bool else _zb(b)) for l, b in pairs]
        if self.twin:
            for l, b in pairs:
                self.claim(l, b)
            return
        live = [(l, b) for l, b in pairs if not z3.is_false(z3.simplify(b))]
        self.claims_evaluated += len(pairs) - len(live)
        if not live:
            return
        if len(live) > 1:
            try:
                if not self.check(z3.Or(*[b for _, b in live]), kind="verdict_checks"):
                    self.claims_evaluated += len(live)
                    return
            except Unsupported:
                pass            # the disjunction was too hard (solver timeout): decide the claims one by one
        for l, b in live:
            self.claim(l, b)

    def skip_validation(self):
        """the path ran in a deliberately altered world (shrunk port universe): no per-path comparison with the real run"""
        self.no_validation = True

    def reach(self, label):
        self.path_reached.add(label)

    def observe(self, name, value):
        self.obs.append((name, value))

    # ---- solver plumbing
    def check(self, *extra, kind="fork_checks"):
        t = time.time()
        self.stats[kind] += 1
        # the incremental solver answers the many easy feasibility checks; what it cannot settle quickly goes to a
        # one-shot QF_BV solver (bit-blasting tactic), which is orders of magnitude faster on the hard ones
        self.solver.set("timeout", self.quick_timeout)
        r = self.solver.check(*extra)
        self._last = self.solver
        if r == z3.unknown:
            self.stats["oneshot"] = self.stats.get("oneshot", 0) + 1
            s2 = z3.SolverFor("QF_BV")
            s2.set("timeout", self.full_timeout)
            s2.add(*self.pc)
            s2.add(*self.extra_stack)
            s2.add(*extra)
            r = s2.check()
            self._last = s2
        self.stats["solver_s"] += time.time() - t
        if r == z3.unknown:
            raise Unsupported("solver returned unknown: " + self._last.reason_unknown())
        return r == z3.sat

    def _note_bounds(self, c):
        """Record unit facts `var <=/>=/== const` for the interval fast path."""
        try:
            if z3.is_not(c):
                return
            k = c.decl().kind()
            a, b = (c.arg(0), c.arg(1)) if c.num_args() == 2 else (None, None)
            if a is None:
                return
            if z3.is_bv_value(a) and not z3.is_bv_value(b):
                a, b = b, a
                k = {z3.Z3_OP_SLEQ: z3.Z3_OP_SGEQ, z3.Z3_OP_SGEQ: z3.Z3_OP_SLEQ}.get(k, k)
            if not (z3.is_const(a) and not z3.is_bv_value(a) and z3.is_bv_value(b)):
                return
            bd = self.bounds.get(a.get_id())
            if bd is None:
                return
            v = b.as_signed_long()
            if k == z3.Z3_OP_SLEQ:
                bd[1] = min(bd[1], v)
            elif k == z3.Z3_OP_SGEQ:
                bd[0] = max(bd[0], v)
            elif k == z3.Z3_OP_EQ:
                bd[0] = max(bd[0], v)
                bd[1] = min(bd[1], v)
        except Exception:
            return

    def _fast(self, cond):
        """Decide `var (<,<=,>,>=,==) const` from interval facts; None if undecided."""
        try:
            neg = False
            c = cond
            if z3.is_not(c):
                neg, c = True, c.arg(0)
            if c.num_args() != 2:
                return None
            a, b = c.arg(0), c.arg(1)
            k = c.decl().kind()
            swap = {z3.Z3_OP_SLEQ: z3.Z3_OP_SGEQ, z3.Z3_OP_SGEQ: z3.Z3_OP_SLEQ,
                    z3.Z3_OP_SLT: z3.Z3_OP_SGT, z3.Z3_OP_SGT: z3.Z3_OP_SLT}
            if z3.is_bv_value(a) and not z3.is_bv_value(b):
                a, b = b, a
                k = swap.get(k, k)
            if not z3.is_bv_value(b):
                return None
            bd = self.bounds.get(a.get_id())
            if bd is None:
                return None
            v, (lo, hi) = b.as_signed_long(), bd
            r = None
            if k == z3.Z3_OP_SLEQ:
                r = True if hi <= v else False if lo > v else None
            elif k == z3.Z3_OP_SGEQ:
                r = True if lo >= v else False if hi < v else None
            elif k == z3.Z3_OP_SLT:
                r = True if hi < v else False if lo >= v else None
            elif k == z3.Z3_OP_SGT:
                r = True if lo > v else False if hi <= v else None
            elif k == z3.Z3_OP_EQ:
                r = False if (v < lo or v > hi) else True if lo == hi == v else None
            if r is None:
                return None
            return (not r) if neg else r
        except Exception:
            return None

    def _sides(self, cond):
        m = self.model_cache
        if m is not None:
            v = m.eval(cond, model_completion=True)
            if z3.is_true(v):
                return True, self.check(z3.Not(cond))
            if z3.is_false(v):
                return self.check(cond), True
        can_t = self.check(cond)
        if can_t:
            self.model_cache = self._last.model()
        return can_t, self.check(z3.Not(cond))

    def fork(self, cond) -> bool:
        """Decide a symbolic condition on this path; schedules the other side when both are feasible."""
        cond = z3.simplify(cond)
        if z3.is_true(cond):
            return True
        if z3.is_false(cond):
            return False
        fast = self._fast(cond)
        if fast is not None:            # implied by interval facts: not a decision, nothing recorded
            self.stats["fast"] += 1
            return fast
        key = cond.get_id()
        hit = self.known.get(key)
        if hit is not None:             # implied by an earlier decision on this path
            self.stats["cache_hits"] += 1
            return hit[1]
        if self.no_fork:
            can_t, can_f = self._sides(cond)
            if can_t and can_f:
                raise NeedFork()
            if not (can_t or can_f):
                raise Infeasible()
            return can_t
        if self.pos < len(self.prefix):
            d = self.prefix[self.pos]
            assert isinstance(d, bool), "replay misaligned at fork"
            self.pos += 1
            self.decisions.append(d)
            self._decided(cond, d, key)
            return d
        if len(self.decisions) >= self.max_depth:
            raise Budget("depth")
        can_t, can_f = self._sides(cond)
        if can_t and can_f:
            self.stats["forks"] += 1
            self.alternatives.append(self.decisions + [False])
            d = True
        elif can_t or can_f:
            self.stats["forced"] += 1
            d = can_t
        else:
            raise Infeasible()
        self.decisions.append(d)
        self.prefix.append(d)
        self.pos += 1
        self._decided(cond, d, key)
        return d

    def _decided(self, cond, d, key):
        c = cond if d else z3.Not(cond)
        self.known[key] = (cond, d)
        m = self.model_cache
        if m is not None and not z3.is_true(m.eval(c, model_completion=True)):
            self.model_cache = None
        self._note_bounds(c)
        self.pc.append(c)
        self.solver.add(c)

    def eval_under(self, assumption, thunk):
        """Evaluate thunk() with `assumption` temporarily on the path, never forking."""
        self.solver.push()
        self.solver.add(assumption)
        self.extra_stack.append(assumption)
        self.no_fork += 1
        saved = (self.known, self.model_cache, {k: list(v) for k, v in self.bounds.items()})
        self.known, self.model_cache = dict(self.known), None
        self._note_bounds(z3.simplify(assumption))
        try:
            if not self.check():
                return ("dead", None)
            return ("ok", thunk())
        except NeedFork:
            return ("fork", None)
        except EngineAbort:
            raise
        except Exception:
            return ("fork", None)      # may only surface after a real fork on the assumption
        finally:
            self.no_fork -= 1
            self.known, self.model_cache, self.bounds = saved
            self.extra_stack.pop()
            self.solver.pop()

    def model(self):
        if not self.check(kind="verdict_checks"):
            return None
        return self._last.model()


def jnorm(v):
    """JSON normal form of a structural option (tuples become lists)."""
    if type(v) in (tuple, list):
        return [jnorm(i) for i in v]
    if type(v) is dict:
        return {str(k): jnorm(x) for k, x in v.items()}
    if v is None or type(v) in (str, int, bool, float):
        return v
    raise Unsupported(f"structural option of type {type(v)} cannot be recorded by value")


class ReplayMismatch(Exception):
    """A recorded structural value is not among the harness's current options."""


class CCtx:
    """Concrete twin of Ctx: the same harness code runs on plain ints/strs with given values."""

    symbolic = False
    twin = False

    def skip_validation(self):
        pass

    def __init__(self, values, choices, tier="quick"):
        self.values, self.choice_values = values, choices
        self.choices, self.obs, self.path_reached, self.assumed_ok = {}, [], set(), True
        self.tier = tier
        self.violated = []            # labels of claims that failed concretely

    def fresh(self, name, lo=None, hi=None):
        v = int(self.values.get(name, lo if lo is not None else 0))
        if (lo is not None and v < lo) or (hi is not None and v > hi):
            self.assumed_ok = False
        return v

    def choice(self, name, n):
        k = int(self.choice_values.get(name, 0))
        self.choices[name] = k
        return k

    def pick(self, name, options):
        if name not in self.choice_values:
            raise ReplayMismatch(f"no recorded value for structural choice {name!r}")
        want = self.choice_values[name]
        for o in options:
            if jnorm(o) == want:
                self.choices[name] = want
                return o
        raise ReplayMismatch(f"recorded value {want!r} for {name!r} is not among the options")

    def claim(self, label, bad):
        if type(bad) is not bool:
            bad = z3.simplify(_zb(bad))
            if z3.is_true(bad):
                bad = True
            elif z3.is_false(bad):
                bad = False
            else:                       # leftover existential variables: quantifier-free query
                s = z3.Solver()
                s.add(bad)
                bad = s.check() == z3.sat
        if bad:
            self.violated.append(label)

    def claims(self, pairs):
        for l, b in pairs:
            self.claim(l, b)

    def assume(self, c):
        if type(c) is bool:
            if not c:
                self.assumed_ok = False
            return
        c = z3.simplify(_zb(c))
        if z3.is_false(c):
            self.assumed_ok = False
        elif not z3.is_true(c):
            raise Unsupported("concrete assume did not reduce to a constant")

    assume_z3 = assume

    def reach(self, label):
        self.path_reached.add(label)

    def observe(self, name, value):
        self.obs.append((name, value))


# ------------------------------------------------------------------ helpers


def Z(x):
    """z3 bit-vector term of an int or SymInt (harness side)."""
    if type(x) is SymInt:
        return x.z
    if type(x) is bool:
        return z3.BitVecVal(int(x), W)
    if type(x) is int:
        return z3.BitVecVal(x, W)
    if z3.is_expr(x):
        return x
    raise Unsupported(f"Z({type(x)})")


def _zb(c):
    if type(c) is SymBool:
        return c.z
    if type(c) is bool:
        return z3.BoolVal(c)
    return c


def B(x):
    """z3 Bool of a Python bool or SymBool."""
    return _zb(x)


def _iv_of(x):
    if type(x) is SymInt:
        return x.iv
    if type(x) is bool:
        x = int(x)
    if type(x) is int:
        return (x, x)
    return None


def _guard(iv):
    if iv[0] <= -LIM or iv[1] >= LIM:
        raise Unsupported("integer interval leaves +-2^62 (Python ints do not wrap)")
    return iv


# ------------------------------------------------------------------ proxies


class SymBool:
    __slots__ = ("z",)

    def __deepcopy__(self, memo): return self      # immutable proxy
    def __copy__(self): return self

    def __init__(self, z):
        self.z = z

    def __bool__(self):
        return Ctx.cur.fork(self.z)

    @property
    def __class__(self):
        return bool

    def __eq__(self, o):
        if type(o) is SymBool:
            return SymBool(self.z == o.z)
        if type(o) is bool:
            return self if o else SymBool(z3.Not(self.z))
        return NotImplemented

    def __ne__(self, o):
        r = self.__eq__(o)
        return r if r is NotImplemented else SymBool(z3.Not(r.z))

    def __hash__(self):
        raise Unsupported("hash(SymBool)")

    def __repr__(self):
        return f"SymBool({self.z})"


class SymInt:
    __slots__ = ("z", "iv")

    def __deepcopy__(self, memo): return self      # immutable proxy
    def __copy__(self): return self

    def __init__(self, z, iv=(-LIM + 1, LIM - 1)):
        self.z = z
        self.iv = iv

    @property
    def __class__(self):
        return int

    # -- arithmetic
    def _bin(self, o, f, ivf):
        oz, oiv = (Z(o), _iv_of(o)) if type(o) in (int, bool, SymInt) else (None, None)
        if oz is None:
            return NotImplemented
        iv = _guard(ivf(self.iv, oiv))
        return SymInt(f(self.z, oz), iv)

    @staticmethod
    def _add(a, b): return (a[0] + b[0], a[1] + b[1])
    @staticmethod
    def _sub(a, b): return (a[0] - b[1], a[1] - b[0])
    @staticmethod
    def _mul(a, b):
        c = [a[0] * b[0], a[0] * b[1], a[1] * b[0], a[1] * b[1]]
        return (min(c), max(c))
    @staticmethod
    def _bits(a, b):
        if a[0] >= 0 and b[0] >= 0:
            n = max(a[1], b[1]).bit_length()
            return (0, (1 << n) - 1)
        m = max(abs(a[0]), abs(a[1]), abs(b[0]), abs(b[1])).bit_length() + 1
        return (-(1 << m), (1 << m) - 1)
    @staticmethod
    def _andiv(a, b):
        if a[0] >= 0 and b[0] >= 0:
            return (0, min(a[1], b[1]))
        if a[0] >= 0:
            return (0, a[1])
        if b[0] >= 0:
            return (0, b[1])
        return SymInt._bits(a, b)

    def __add__(self, o): return self._bin(o, lambda a, b: a + b, self._add)
    def __radd__(self, o): return self._bin(o, lambda a, b: b + a, self._add)
    def __sub__(self, o): return self._bin(o, lambda a, b: a - b, self._sub)
    def __rsub__(self, o): return self._bin(o, lambda a, b: b - a, lambda a, b: self._sub(b, a))
    def __mul__(self, o): return self._bin(o, lambda a, b: a * b, self._mul)
    def __rmul__(self, o): return self._bin(o, lambda a, b: b * a, self._mul)
    def __and__(self, o): return self._bin(o, lambda a, b: a & b, self._andiv)
    def __rand__(self, o): return self._bin(o, lambda a, b: b & a, self._andiv)
    def __or__(self, o): return self._bin(o, lambda a, b: a | b, self._bits)
    def __ror__(self, o): return self._bin(o, lambda a, b: b | a, self._bits)
    def __xor__(self, o): return self._bin(o, lambda a, b: a ^ b, self._bits)
    def __rxor__(self, o): return self._bin(o, lambda a, b: b ^ a, self._bits)
    def __invert__(self): return SymInt(~self.z, (-self.iv[1] - 1, -self.iv[0] - 1))
    def __neg__(self): return SymInt(-self.z, (-self.iv[1], -self.iv[0]))
    def __pos__(self): return self

    def __lshift__(self, o):
        if type(o) is not int or o < 0:
            raise Unsupported("<< by a symbolic amount")
        return SymInt(self.z << o, _guard((self.iv[0] << o, self.iv[1] << o)))

    def __rshift__(self, o):
        if type(o) is not int or o < 0:
            raise Unsupported(">> by a symbolic amount")
        return SymInt(self.z >> o, (self.iv[0] >> o, self.iv[1] >> o))   # bvashr == floor shift

    def _concretize_small(self, what):
        """the few possible values of a narrowly bounded symbolic int, one path each"""
        lo, hi = self.iv
        if hi - lo > 64:
            # the static interval is wide: the path condition may still pin the value into a small window
            lo = max(lo, -1)
            if Ctx.cur.fork(z3.Or(self.z < lo, self.z > lo + 64)):
                raise Unsupported(what + " by a symbolic amount with a wide range")
            hi = lo + 64
        for v in range(lo, hi + 1):
            if Ctx.cur.fork(self.z == v):
                return v
        raise Infeasible()

    def __rrshift__(self, o):
        if type(o) is not int:
            raise Unsupported(">> of a non-int by a symbolic amount")
        return o >> self._concretize_small(">>")

    def __rlshift__(self, o):
        if type(o) is not int:
            raise Unsupported("<< of a non-int by a symbolic amount")
        return o << self._concretize_small("<<")

    def _unsupported_op(self, *a, **k):
        raise Unsupported("arithmetic operator not modelled on symbolic ints")

    __pow__ = __rpow__ = __truediv__ = __rtruediv__ = __rfloordiv__ = __rmod__ = __divmod__ = __rdivmod__ = _unsupported_op
    __matmul__ = __rmatmul__ = __round__ = __float__ = _unsupported_op

    def __floordiv__(self, o):
        if type(o) is not int or o <= 0:
            raise Unsupported("// by a symbolic or non-positive value")
        if self.iv[0] >= 0 or Ctx.cur.fork(self.z >= 0):
            return SymInt(z3.UDiv(self.z, z3.BitVecVal(o, W)), (max(0, self.iv[0]) // o, max(0, self.iv[1]) // o))
        raise Unsupported("// on a negative symbolic value")

    def __mod__(self, o):
        if type(o) is not int or o <= 0:
            raise Unsupported("% by a symbolic or non-positive value")
        if self.iv[0] >= 0 or Ctx.cur.fork(self.z >= 0):
            return SymInt(z3.URem(self.z, z3.BitVecVal(o, W)), (0, o - 1))
        raise Unsupported("% on a negative symbolic value")

    # -- comparisons
    def _cmp(self, o, f, op):
        if type(o) not in (int, bool, SymInt):
            return NotImplemented
        # decided by the (conservative) intervals alone: a plain bool, no solver, no decision
        (al, ah), (bl, bh) = self.iv, _iv_of(o)
        if op == "<":
            if ah < bl: return True
            if al >= bh: return False
        elif op == "<=":
            if ah <= bl: return True
            if al > bh: return False
        elif op == ">":
            if al > bh: return True
            if ah <= bl: return False
        elif op == ">=":
            if al >= bh: return True
            if ah < bl: return False
        elif op == "==":
            if ah < bl or al > bh: return False
        elif op == "!=":
            if ah < bl or al > bh: return True
        return SymBool(f(self.z, Z(o)))

    def __lt__(self, o): return self._cmp(o, lambda a, b: a < b, "<")
    def __le__(self, o): return self._cmp(o, lambda a, b: a <= b, "<=")
    def __gt__(self, o): return self._cmp(o, lambda a, b: a > b, ">")
    def __ge__(self, o): return self._cmp(o, lambda a, b: a >= b, ">=")

    def __eq__(self, o):
        r = self._cmp(o, lambda a, b: a == b, "==")
        return False if r is NotImplemented else r

    def __ne__(self, o):
        r = self._cmp(o, lambda a, b: a != b, "!=")
        return True if r is NotImplemented else r

    def __bool__(self): return Ctx.cur.fork(self.z != 0)
    def __hash__(self): raise Unsupported("hash(SymInt)")
    def __index__(self): raise Unsupported("index(SymInt)")
    def __int__(self): raise Unsupported("C-level int(SymInt)")
    def __str__(self): raise Unsupported("C-level str(SymInt)")
    def __format__(self, spec): raise Unsupported("C-level format(SymInt)")
    def __repr__(self): return f"SymInt({self.z})"

    def to_bytes(self, length, byteorder="big", *, signed=False):
        if byteorder != "big" or signed:
            raise Unsupported("to_bytes variant")
        if self.iv[0] < 0 or self.iv[1] >= (1 << (8 * length)):
            if not Ctx.cur.fork(z3.And(self.z >= 0, self.z < (1 << (8 * length)))):
                raise OverflowError("int too big to convert")
        return [SymInt(z3.simplify((self.z >> (8 * (length - 1 - i))) & 0xFF), (0, 255)) for i in range(length)]


DEC_LIMITS = [10 ** k for k in range(1, 19)]


def declen(v: SymInt) -> SymInt:
    """number of decimal digits of a non-negative SymInt (its interval bounds the ite chain)"""
    lo_len = len(str(max(v.iv[0], 0)))
    hi_len = min(len(str(max(v.iv[1], 0))), len(DEC_LIMITS) + 1)
    if lo_len >= hi_len:
        return hi_len
    e = z3.BitVecVal(hi_len, W)
    for k in range(hi_len - 1, lo_len - 1, -1):
        e = z3.If(v.z < DEC_LIMITS[k - 1], z3.BitVecVal(k, W), e)
    return SymInt(z3.simplify(e), (lo_len, hi_len))


class Dec:
    """Atom of a SymStr: canonical decimal rendering of a non-negative SymInt."""
    __slots__ = ("v",)

    def __deepcopy__(self, memo): return self      # immutable proxy
    def __copy__(self): return self

    def __init__(self, v):
        if v.iv[0] < 0 and not Ctx.cur.fork(v.z >= 0):
            raise Unsupported("decimal rendering of a negative symbolic int")
        self.v = v

    def __repr__(self):
        return f"<{z3.simplify(self.v.z)}>"


def _isdig(ch):
    return "0" <= ch <= "9"


class DigitChar:
    """First/last character of a numeral atom."""

    def __init__(self, v, first):
        self.v, self.first = v, first

    @property
    def __class__(self):
        return str

    def isdigit(self): return True
    def isascii(self): return True
    def isalpha(self): return False
    def isspace(self): return False

    def __eq__(self, o):
        if type(o) is str and (len(o) != 1 or not _isdig(o)):
            return False
        if type(o) is str and o == "0" and self.first:
            return self.v == 0          # canonical numerals start with 0 only if they are "0"
        raise Unsupported("comparison of a numeral's digit")

    def __ne__(self, o):
        r = self.__eq__(o)
        return SymBool(z3.Not(r.z)) if type(r) is SymBool else not r

    def __hash__(self):
        raise Unsupported("hash of a numeral's digit")


class SymStr:
    """Text = concrete chunks + numeral atoms; every maximal digit run is wholly concrete or one atom."""
    __slots__ = ("parts",)

    def __deepcopy__(self, memo): return self      # immutable proxy
    def __copy__(self): return self

    def __init__(self, parts):
        norm = []
        for p in parts:
            if type(p) is str:
                if not p:
                    continue
                if norm and type(norm[-1]) is str:
                    norm[-1] += p
                else:
                    norm.append(p)
            elif type(p) is Dec:
                norm.append(p)
            else:
                raise Unsupported(f"SymStr part {type(p)}")
        for a, b in zip(norm, norm[1:]):
            if type(a) is Dec and (type(b) is Dec or _isdig(b[0])):
                raise Unsupported("numeral directly followed by a digit")
            if type(b) is Dec and type(a) is str and _isdig(a[-1]):
                raise Unsupported("digit directly followed by a numeral")
        self.parts = norm

    @staticmethod
    def mk(parts):
        s = SymStr(parts)
        if all(type(p) is str for p in s.parts):
            return "".join(s.parts)
        return s

    @staticmethod
    def lift(x):
        if type(x) is SymStr:
            return x
        if type(x) is str:
            return SymStr([x])
        if type(x) is DigitChar:
            raise Unsupported("concatenating a numeral's digit")
        raise Unsupported(f"not text: {type(x)}")

    @property
    def __class__(self):
        return str

    def __repr__(self):
        return "SymStr(" + "".join(p if type(p) is str else repr(p) for p in self.parts) + ")"

    def __str__(self):      # display only (logging); never parseable as a number
        return "".join(p if type(p) is str else "⟦" + str(z3.simplify(p.v.z)) + "⟧" for p in self.parts)

    def __bool__(self): return bool(self.parts)
    def __hash__(self): raise Unsupported("hash(SymStr)")
    def __len__(self): raise Unsupported("C-level len(SymStr)")
    def __iter__(self):
        """characters: concrete ones as they are, each numeral as one placeholder digit (usable for character-class tests only)"""
        out = []
        for p in self.parts:
            if type(p) is str:
                out.extend(p)
            else:
                out.append(DigitChar(p.v, True))
        return iter(out)
    def __add__(self, o): return SymStr.mk(self.parts + SymStr.lift(o).parts)
    def __radd__(self, o): return SymStr.mk(SymStr.lift(o).parts + self.parts)

    def symlen(self):
        n = 0
        for p in self.parts:
            n = n + (len(p) if type(p) is str else declen(p.v))
        return n

    # -- tokens
    def _toks(self):
        out = []
        for p in self.parts:
            if type(p) is str:
                out.extend(p)
            else:
                out.append(p)
        return out

    def split(self, sep=None, maxsplit=-1):
        toks, res, cur, n = self._toks(), [], [], 0
        if sep is None:
            i = 0
            while i < len(toks):
                t = toks[i]
                if type(t) is str and t.isspace():
                    if cur:
                        res.append(cur)
                        cur = []
                        n += 1
                    i += 1
                    continue
                if maxsplit >= 0 and n >= maxsplit and not cur:
                    rest = toks[i:]
                    while rest and type(rest[-1]) is str and rest[-1].isspace():
                        rest.pop()
                    res.append(rest)
                    cur = []
                    break
                cur.append(t)
                i += 1
            if cur:
                res.append(cur)
            return [SymStr.mk(t) for t in res]
        if type(sep) is not str or not sep or any(_isdig(c) for c in sep):
            raise Unsupported("split on symbolic/empty/digit separator")
        i, L = 0, len(sep)
        while i < len(toks):
            w = toks[i:i + L]
            if (maxsplit < 0 or n < maxsplit) and len(w) == L and all(type(c) is str for c in w) and "".join(w) == sep:
                res.append(cur)
                cur, n, i = [], n + 1, i + L
            else:
                cur.append(toks[i])
                i += 1
        res.append(cur)
        return [SymStr.mk(t) if t else "" for t in res]

    def splitlines(self, keepends=False):
        if keepends:
            raise Unsupported("splitlines(keepends)")
        if any(type(p) is str and any(c in p for c in "\r\v\f\x1c\x1d\x1e\x85  ") for p in self.parts):
            raise Unsupported("exotic line separators")
        out = self.split("\n")
        if out and type(out[-1]) is str and out[-1] == "":
            out = out[:-1]
        return out

    def _strip(self, chars, left, right):
        if chars is not None and (type(chars) is not str or any(_isdig(c) for c in chars)):
            raise Unsupported("strip of digits")
        parts = list(self.parts)
        if left and parts and type(parts[0]) is str:
            parts[0] = parts[0].lstrip(chars)
        if right and parts and type(parts[-1]) is str:
            parts[-1] = parts[-1].rstrip(chars)
        return SymStr.mk(parts)

    def strip(self, chars=None): return self._strip(chars, True, True)
    def lstrip(self, chars=None): return self._strip(chars, True, False)
    def rstrip(self, chars=None): return self._strip(chars, False, True)

    def _affix(self, text, toks):
        if type(text) is tuple:
            raise Unsupported("tuple affix")
        if type(text) is not str:
            raise Unsupported("symbolic affix")
        i = 0
        for ch in text:
            if i >= len(toks):
                return False
            t = toks[i]
            if type(t) is str:
                if t != ch:
                    return False
                i += 1
            else:
                if _isdig(ch):
                    raise Unsupported("affix digit against a numeral")
                return False
        return True

    def startswith(self, prefix): return self._affix(prefix, self._toks())
    def endswith(self, suffix): return self._affix(suffix[::-1] if type(suffix) is str else suffix, self._toks()[::-1])

    def find(self, sub):
        if not (type(sub) is str and len(sub) == 1 and not _isdig(sub)):
            raise Unsupported("find of digits / longer text")
        pos = 0
        for p in self.parts:
            if type(p) is str:
                j = p.find(sub)
                if j >= 0:
                    return pos + j
                pos = pos + len(p)
            else:
                pos = pos + declen(p.v)
        return -1

    def count(self, sub):
        if not (type(sub) is str and sub and not any(_isdig(c) for c in sub)):
            raise Unsupported("count of digits")
        return sum(p.count(sub) for p in self.parts if type(p) is str)

    def replace(self, old, new, count=-1):
        if count != -1 or type(old) is not str or type(new) is not str or not old or any(_isdig(c) for c in old):
            raise Unsupported("replace involving digits")
        return SymStr.mk([p.replace(old, new) if type(p) is str else p for p in self.parts])

    def isdigit(self): return bool(self.parts) and all(type(p) is Dec or p.isdigit() for p in self.parts)
    def isascii(self): return all(type(p) is Dec or p.isascii() for p in self.parts)
    def lower(self): return SymStr.mk([p.lower() if type(p) is str else p for p in self.parts])
    def upper(self): return SymStr.mk([p.upper() if type(p) is str else p for p in self.parts])

    def __getitem__(self, i):
        if type(i) is int and i in (0, -1):
            p = self.parts[i]
            return p[i] if type(p) is str else DigitChar(p.v, i == 0)
        raise Unsupported("indexing symbolic text")

    def __contains__(self, sub):
        if type(sub) is str and sub and not any(_isdig(c) for c in sub):
            return any(type(p) is str and sub in p for p in self.parts) if len(sub) == 1 or True else False
        raise Unsupported("substring test involving digits")

    def _runs(self):
        runs = []
        for p in self.parts:
            if type(p) is Dec:
                runs.append(("d", p))
                continue
            cur, kind = "", None
            for ch in p:
                k = "d" if _isdig(ch) else "n"
                if k != kind and cur:
                    runs.append((kind, cur))
                    cur = ""
                kind = k
                cur += ch
            if cur:
                runs.append((kind, cur))
        return runs

    def __eq__(self, o):
        if type(o) is str:
            o = SymStr([o])
        if type(o) is not SymStr:
            return False
        a, b = self._runs(), o._runs()
        if len(a) != len(b):
            return False
        conds = []
        for (ka, va), (kb, vb) in zip(a, b):
            if ka != kb:
                return False
            if ka == "n" or (type(va) is str and type(vb) is str):
                if va != vb:
                    return False
            elif type(va) is Dec and type(vb) is Dec:
                conds.append(va.v.z == vb.v.z)
            else:
                atom, text = (va, vb) if type(va) is Dec else (vb, va)
                if len(text) > 1 and text[0] == "0":
                    return False
                conds.append(atom.v.z == int(text))
        return SymBool(z3.And(*conds)) if conds else True

    def __ne__(self, o):
        r = self.__eq__(o)
        return SymBool(z3.Not(r.z)) if type(r) is SymBool else not r

    @staticmethod
    def _as_numeral(x):
        """(SymInt|int value, (min digits, max digits)) when x is a pure canonical numeral, else None"""
        if type(x) is SymStr and len(x.parts) == 1 and type(x.parts[0]) is Dec:
            v = x.parts[0].v
            return v, (len(str(max(v.iv[0], 0))), len(str(max(v.iv[1], 0))))
        if type(x) is str and x.isdigit() and (x == "0" or x[0] != "0"):
            return int(x), (len(x), len(x))
        return None

    @staticmethod
    def _tokens(x):
        """text -> tokens: ("c", char) for a non-digit character, ("n", z3 value, min digits, max digits) for a maximal digit run
        (a concrete run keeps its length, so leading zeros compare correctly)"""
        out = []
        for p in (x.parts if type(x) is SymStr else [x]):
            if type(p) is Dec:
                lo, hi = len(str(max(p.v.iv[0], 0))), len(str(max(p.v.iv[1], 0)))
                if hi > 12:
                    raise Unsupported("ordering of long symbolic numerals")
                out.append(("n", p.v.z, lo, hi))
                continue
            k = 0
            while k < len(p):
                if _isdig(p[k]):
                    m = k
                    while m < len(p) and _isdig(p[m]):
                        m += 1
                    if m - k > 12:
                        raise Unsupported("ordering of long numerals")
                    out.append(("n", z3.BitVecVal(int(p[k:m]), W), m - k, m - k, True))
                    k = m
                else:
                    out.append(("c", p[k]))
                    k += 1
        return out

    @staticmethod
    def _lex(A, B):
        """(A < B, A == B) as z3 Bools for token lists, lexicographic by character like str.__lt__.  A digit run is never
        followed by a digit (SymStr invariant), which is what makes the comparison of two runs of different length decidable
        from the numbers alone: either they differ inside the common length, or the shorter is a prefix and the character
        after it (a non-digit or the end) is compared with a digit."""
        T_, F_ = z3.BoolVal(True), z3.BoolVal(False)
        if not A:
            return (T_ if B else F_), (F_ if B else T_)
        if not B:
            return F_, F_
        a, b = A[0], B[0]
        if a[0] == "c" and b[0] == "c":
            if a[1] != b[1]:
                return (T_ if a[1] < b[1] else F_), F_
            return SymStr._lex(A[1:], B[1:])
        if a[0] == "c":
            return (T_ if a[1] < "0" else F_), F_            # a non-digit against some digit
        if b[0] == "c":
            return (F_ if b[1] < "0" else T_), F_

        def has_len(z, n):
            return z3.And(z3.UGE(z, 0 if n == 1 else 10 ** (n - 1)), z3.ULT(z, 10 ** n))

        def after(rest):
            """is the text that follows a run smaller than a digit? (end of text or a character below '0')"""
            if not rest:
                return T_
            if rest[0][0] == "c":
                return T_ if rest[0][1] < "0" else F_
            raise Unsupported("numeral directly followed by a digit")
        za, zb = a[1], b[1]
        lt_rest, eq_rest = SymStr._lex(A[1:], B[1:])
        lts, eqs = [], []
        for i in range(a[2], a[3] + 1):
            for j in range(b[2], b[3] + 1):
                guard = z3.And(T_ if len(a) > 4 else has_len(za, i), T_ if len(b) > 4 else has_len(zb, j))
                if i == j:
                    lt = z3.Or(z3.ULT(za, zb), z3.And(za == zb, lt_rest))
                    eqs.append(z3.And(guard, za == zb, eq_rest))
                elif i < j:                      # A's run may be a proper prefix of B's
                    k = 10 ** (j - i)
                    less, more = z3.ULE((za + 1) * k, zb), z3.UGT(za * k, zb)
                    lt = z3.Or(less, z3.And(z3.Not(less), z3.Not(more), after(A[1:])))
                else:                            # B's run may be a proper prefix of A's
                    k = 10 ** (i - j)
                    less, more = z3.ULT(za, zb * k), z3.UGE(za, (zb + 1) * k)
                    lt = z3.Or(less, z3.And(z3.Not(less), z3.Not(more), z3.Not(after(B[1:]))))
                lts.append(z3.And(guard, lt))
        return z3.Or(*lts), (z3.Or(*eqs) if eqs else F_)

    def _ord(self, o, op):
        """lexicographic order of texts made of concrete characters and numeral atoms (str.__lt__ semantics)"""
        if type(o) is not SymStr and type(o) is not str:
            if type(o) is DigitChar:
                raise Unsupported("ordering against a numeral's digit")
            return NotImplemented
        lt, eq = SymStr._lex(SymStr._tokens(self), SymStr._tokens(o))
        res = z3.simplify({"<": lt, "<=": z3.Or(lt, eq), ">": z3.Not(z3.Or(lt, eq)), ">=": z3.Not(lt)}[op])
        if z3.is_true(res):
            return True
        if z3.is_false(res):
            return False
        return SymBool(res)

    def __lt__(self, o): return self._ord(o, "<")
    def __le__(self, o): return self._ord(o, "<=")
    def __gt__(self, o): return self._ord(o, ">")
    def __ge__(self, o): return self._ord(o, ">=")


# ------------------------------------------------------------------ dual-mode formula builders (harness side)
# On plain Python values they compute plain bools/ints (fast concrete replay); on proxies / z3 terms they build z3.


def V(x):
    """value usable in comparisons: int stays int, SymInt -> its z3 term"""
    t = type(x)
    if t is SymInt:
        return x.z
    if t is SymBool:
        return x.z
    if t is bool or t is int:
        return x
    if z3.is_expr(x):
        return x
    raise Unsupported(f"V({t})")


def Or_(*xs):
    if len(xs) == 1 and type(xs[0]) in (list, tuple):
        xs = xs[0]
    rest = []
    for x in xs:
        x = V(x)
        if type(x) is bool:
            if x:
                return True
            continue
        rest.append(x)
    if not rest:
        return False
    return rest[0] if len(rest) == 1 else z3.Or(*rest)


def And_(*xs):
    if len(xs) == 1 and type(xs[0]) in (list, tuple):
        xs = xs[0]
    rest = []
    for x in xs:
        x = V(x)
        if type(x) is bool:
            if not x:
                return False
            continue
        rest.append(x)
    if not rest:
        return True
    return rest[0] if len(rest) == 1 else z3.And(*rest)


def Not_(x):
    x = V(x)
    return (not x) if type(x) is bool else z3.Not(x)


def If_(c, a, b):
    c = V(c)
    if type(c) is bool:
        return a if c else b
    a, b = V(a), V(b)
    if type(a) is int:
        a = z3.BitVecVal(a, W)
    if type(b) is int:
        b = z3.BitVecVal(b, W)
    return z3.If(c, a, b)


def Iff_(a, b):
    a, b = V(a), V(b)
    if type(a) is bool and type(b) is bool:
        return a == b
    if type(a) is bool:
        return b if a else z3.Not(b)
    if type(b) is bool:
        return a if b else z3.Not(a)
    return a == b


def Xor_(a, b):
    return Not_(Iff_(a, b))
