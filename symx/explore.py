"""Path exploration of one structural shard: verdicts, models, observables."""
from __future__ import annotations

import os
import time
import z3

from .core import (Ctx, CCtx, SymBool, SymInt, SymStr, Dec, Unsupported, Budget, Infeasible,
                   EngineAbort, B, jnorm, ReplayMismatch)


def _model_values(ctx, m):
    vals = {}
    for name, v in ctx.vars.items():
        vals[name] = m.eval(v, model_completion=True).as_signed_long()
    return vals


def concretize(value, m):
    """Evaluate an observable (possibly containing proxies) under model m."""
    t = type(value)
    if t is SymInt:
        return m.eval(value.z, model_completion=True).as_signed_long()
    if t is SymBool:
        return z3.is_true(m.eval(value.z, model_completion=True))
    if t is SymStr:
        return "".join(p if type(p) is str else str(m.eval(p.v.z, model_completion=True).as_signed_long())
                       for p in value.parts)
    if t in (list, tuple):
        return [concretize(v, m) for v in value]
    if t is dict or isinstance(value, dict):
        return {str(concretize(k, m)): concretize(v, m) for k, v in value.items()}
    if hasattr(value, "items") and type(value).__name__ == "SymSet":
        return sorted((concretize(v, m) for v in value.items), key=repr)
    if t in (set, frozenset):
        return sorted((concretize(v, m) for v in value), key=repr)
    return value


def norm(v):
    """Normal form of an observable for comparison between symbolic and concrete runs."""
    if v is None or type(v) in (int, str, bool):
        return v
    if isinstance(v, bool):
        return bool(v)
    if isinstance(v, int):
        return int(v)
    if isinstance(v, str):
        return str(v)
    if isinstance(v, (list, tuple)):
        return [norm(x) for x in v]
    if isinstance(v, (set, frozenset)):
        return sorted((norm(x) for x in v), key=repr)
    if isinstance(v, dict):
        return {str(norm(k)): norm(x) for k, x in v.items()}
    return repr(v)


class ShardResult:
    """Picklable result of exploring one shard."""

    def __init__(self):
        self.violations = []      # dicts: label, choices, values, observed
        self.paths = []           # dicts: choices, values, observed   (for differential validation)
        self.stats = {}
        self.entered = set()
        self.reached = set()
        self.inconclusive = None
        self.claims = 0
        self.feasible_paths = 0


def explore(harness, *, pins=None, tier="quick", twin=False, max_paths=20000, max_seconds=None,
            keep_paths=True, setup=None):
    """Run harness(ctx) once per feasible path of the shard fixed by `pins`."""
    ctx = Ctx(pins=pins, twin=twin, tier=tier)
    Ctx.cur = ctx
    res = ShardResult()
    work = [[]]
    t0 = time.time()
    try:
        while work:
            if ctx.stats["paths"] >= max_paths:
                raise Budget(f"more than {max_paths} paths in one shard")
            if max_seconds and time.time() - t0 > max_seconds:
                raise Budget(f"more than {max_seconds}s in one shard")
            ctx.start_path(work.pop())
            ctx.stats["paths"] += 1
            if setup is not None:
                setup()
            before = ctx.claims_evaluated
            try:
                bad = harness(ctx)
                if bad is not None:
                    ctx.claim("final", bad)
            except Infeasible:
                work.extend(ctx.alternatives)
                ctx.claims_evaluated = before
                continue
            except Exception as e:      # the library raised something the harness does not expect
                if os.environ.get("VERIF_TRACE"):
                    import traceback
                    traceback.print_exc()
                m = ctx.model()
                if m is not None:
                    ctx.claims_evaluated += 1
                    ctx.obs.append(("exception", type(e).__name__))
                    ctx.found.append(("unexpected-exception:" + type(e).__name__, m))
            work.extend(ctx.alternatives)
            for label, m in ctx.found:
                res.violations.append(dict(label=label, choices=dict(ctx.choices), values=_model_values(ctx, m),
                                           observed=norm([[n, concretize(v, m)] for n, v in ctx.obs])))
            m = ctx.model()
            if m is None:                      # assumptions made the path infeasible
                ctx.claims_evaluated = before
                continue
            res.feasible_paths += 1
            res.reached |= ctx.path_reached
            if keep_paths and not ctx.no_validation:
                res.paths.append(dict(choices=dict(ctx.choices), values=_model_values(ctx, m),
                                      observed=norm([[n, concretize(v, m)] for n, v in ctx.obs])))
    except (Unsupported, Budget) as e:
        import traceback
        tb = traceback.extract_tb(e.__traceback__)
        where = " <- ".join(f"{f.name}:{f.lineno}" for f in tb[-4:])
        res.inconclusive = f"{type(e).__name__}: {e} [{where}] choices={getattr(ctx, 'choices', {})}"
    res.claims = ctx.claims_evaluated
    res.stats = dict(ctx.stats, wall_s=round(time.time() - t0, 3))
    res.entered = set(ctx.entered)
    Ctx.cur = None
    return res


def run_concrete(harness, values, choices, tier="quick"):
    """Run the same harness on plain values (the library is imported WITHOUT instrumentation by the caller)."""
    ctx = CCtx(values, choices, tier=tier)
    Ctx.cur = None
    try:
        bad = harness(ctx)
        if bad is not None:
            ctx.claim("final", bad)
    except ReplayMismatch:
        raise
    except Exception as e:
        ctx.obs.append(("exception", type(e).__name__))
        ctx.violated.append("unexpected-exception:" + type(e).__name__)
    return dict(violated=list(ctx.violated), assumed_ok=ctx.assumed_ok, observed=norm([[n, v] for n, v in ctx.obs]),
                choices=ctx.choices)
