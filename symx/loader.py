"""Import cisco_acl / ipaddress / netports from SOURCE with AST instrumentation (prototype v2)."""
from __future__ import annotations

import ast
import importlib.abc
import importlib.machinery
import importlib.util
import re as _re
import sys

from . import shims

TARGETS = ("cisco_acl", "ipaddress", "netports")
PORT_LITERAL_MODULES = ("cisco_acl.port", "cisco_acl.helpers")
rewritten_literals = []      # (module, lineno) of every 65535 routed through SX_cfg.PORT_MAX


def _is_target(name):
    return any(name == t or name.startswith(t + ".") for t in TARGETS)


def _call(name, *args):
    return ast.Call(ast.Name(name, ast.Load()), list(args), [])


class Tx(ast.NodeTransformer):
    def __init__(self, modname):
        self.modname = modname
        self.scope = []

    # ---- function entry (evidence)
    def _enter(self, node):
        self.scope.append(node.name)
        self.generic_visit(node)
        qual = self.modname + "." + ".".join(self.scope)
        self.scope.pop()
        stmt = ast.Expr(_call("SX_enter", ast.Constant(qual)))
        body = node.body
        idx = 1 if body and isinstance(body[0], ast.Expr) and isinstance(getattr(body[0], "value", None), ast.Constant) \
            and isinstance(body[0].value.value, str) else 0
        is_gen = any(isinstance(n, (ast.Yield, ast.YieldFrom)) for n in ast.walk(node))
        if not is_gen:
            body.insert(idx, stmt)
        return node

    visit_FunctionDef = _enter

    def visit_ClassDef(self, node):
        self.scope.append(node.name)
        self.generic_visit(node)
        self.scope.pop()
        return node

    # ---- text
    def visit_JoinedStr(self, node):
        self.generic_visit(node)
        pieces = []
        for v in node.values:
            if isinstance(v, ast.Constant):
                pieces.append(ast.Tuple([ast.Constant("c"), v, ast.Constant(-1), ast.Constant("")], ast.Load()))
                continue
            spec = v.format_spec if v.format_spec is not None else ast.Constant("")
            pieces.append(ast.Tuple([ast.Constant("v"), v.value, ast.Constant(v.conversion), spec], ast.Load()))
        return ast.copy_location(_call("SX_fstring", *pieces), node)

    def visit_BinOp(self, node):
        self.generic_visit(node)
        if isinstance(node.op, ast.Mod) and isinstance(node.left, ast.Constant) and isinstance(node.left.value, str):
            return ast.copy_location(_call("SX_pct", node.left, node.right), node)
        return node

    def visit_Call(self, node):
        self.generic_visit(node)
        f = node.func
        if isinstance(f, ast.Attribute) and not node.keywords:
            if f.attr == "join" and len(node.args) == 1:
                return ast.copy_location(_call("SX_join", f.value, node.args[0]), node)
            if f.attr == "__hash__" and not node.args:
                return ast.copy_location(_call("SX_hash", f.value), node)
            if f.attr == "get" and 1 <= len(node.args) <= 2:
                return ast.copy_location(_call("SX_get", f.value, *node.args), node)
        return node

    # ---- booleans
    def visit_BoolOp(self, node):
        self.generic_visit(node)
        for sub in ast.walk(node):
            if isinstance(sub, (ast.NamedExpr, ast.Yield, ast.YieldFrom, ast.Await)):
                return node
        thunks = [ast.Lambda(ast.arguments([], [], None, [], [], None, []), v) for v in node.values]
        return ast.copy_location(_call("SX_and" if isinstance(node.op, ast.And) else "SX_or", *thunks), node)

    def visit_UnaryOp(self, node):
        self.generic_visit(node)
        if isinstance(node.op, ast.Not):
            return ast.copy_location(_call("SX_not", node.operand), node)
        return node

    # ---- containers
    def visit_Compare(self, node):
        self.generic_visit(node)
        if len(node.ops) == 1 and isinstance(node.ops[0], (ast.In, ast.NotIn)):
            call = _call("SX_contains", node.left, node.comparators[0])
            if isinstance(node.ops[0], ast.NotIn):
                call = _call("SX_not", call)
            return ast.copy_location(call, node)
        return node

    def visit_SetComp(self, node):
        self.generic_visit(node)
        return ast.copy_location(_call("set", ast.GeneratorExp(node.elt, node.generators)), node)

    def visit_Set(self, node):
        self.generic_visit(node)
        return ast.copy_location(_call("set", ast.List(node.elts, ast.Load())), node)

    def visit_DictComp(self, node):
        self.generic_visit(node)
        pair = ast.Tuple([node.key, node.value], ast.Load())
        return ast.copy_location(_call("SX_dictcomp", ast.GeneratorExp(pair, node.generators)), node)

    def visit_Dict(self, node):
        self.generic_visit(node)
        if any(k is None for k in node.keys):
            return node
        return ast.copy_location(_call("SX_mkdict", ast.List(node.keys, ast.Load()), ast.List(node.values, ast.Load())), node)

    # ---- the port universe
    def visit_Constant(self, node):
        if type(node.value) is int and node.value == 65535 and self.modname in PORT_LITERAL_MODULES:
            rewritten_literals.append((self.modname, node.lineno))
            return ast.copy_location(ast.Attribute(ast.Name("SX_cfg", ast.Load()), "PORT_MAX", ast.Load()), node)
        return node


class Loader(importlib.machinery.SourceFileLoader):
    def source_to_code(self, data, path, *, _optimize=-1):
        tree = ast.parse(data, filename=path)
        tree = Tx(self.name).visit(tree)
        ast.fix_missing_locations(tree)
        return compile(tree, path, "exec", dont_inherit=True, optimize=_optimize)

    def get_code(self, fullname):            # always from source: never a cached .pyc
        path = self.get_filename(fullname)
        return self.source_to_code(self.get_data(path), path)

    def exec_module(self, module):
        module.__dict__.update(shims.shim_table())
        module.__dict__["SX_cfg"] = shims
        super().exec_module(module)
        if module.__dict__.get("re") is _re:
            module.__dict__["re"] = shims.ReShim()


class Finder(importlib.abc.MetaPathFinder):
    def find_spec(self, fullname, path, target=None):
        if not _is_target(fullname):
            return None
        spec = importlib.machinery.PathFinder.find_spec(fullname, path)
        if spec is None or not spec.origin or not spec.origin.endswith(".py"):
            return spec
        return importlib.util.spec_from_file_location(
            fullname, spec.origin, loader=Loader(fullname, spec.origin),
            submodule_search_locations=spec.submodule_search_locations)


def install(repo="/repo"):
    """Make `import cisco_acl` (etc.) load instrumented code from the current source tree."""
    if repo and repo not in sys.path:
        sys.path.insert(0, repo)
    for name in list(sys.modules):
        if _is_target(name):
            del sys.modules[name]
    if not any(isinstance(f, Finder) for f in sys.meta_path):
        sys.meta_path.insert(0, Finder())
