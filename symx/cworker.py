"""Concrete worker: runs harnesses on the UNINSTRUMENTED library with given values (replay / validation)."""
import importlib
import json
import sys
import traceback


def main():
    modname, tier, seed = sys.argv[1], sys.argv[2], int(sys.argv[3])
    from symx.explore import run_concrete
    from symx.core import ReplayMismatch
    mod = importlib.import_module("harness." + modname)
    specs = {s.name: s for s in mod.specs(tier, seed, concrete=True)}
    for line in sys.stdin:
        line = line.strip()
        if not line:
            continue
        j = json.loads(line)
        try:
            spec = specs[j["spec"]]
            if spec.setup:
                spec.setup()
            r = run_concrete(spec.fn, j["values"], j["choices"], tier=tier)
            out = dict(violated=r["violated"], assumed_ok=r["assumed_ok"], observed=r["observed"])
        except ReplayMismatch as e:
            out = dict(error="ReplayMismatch: " + str(e))
        except Exception as e:
            out = dict(error=type(e).__name__ + ": " + str(e) + " | " + traceback.format_exc()[-600:])
        print(json.dumps(out), flush=True)


if __name__ == "__main__":
    main()
