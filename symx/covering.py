"""Deterministic t-way covering arrays over named finite dimensions, with a validity predicate."""
import itertools
import random


def covering_array(dims, t=2, seed=0, valid=None, candidates=40, must=()):
    """dims: {name: [values]}.  Greedy: keep adding the candidate row that covers most uncovered t-tuples.
    Tuples no valid row can cover are dropped (counted as infeasible).  Returns (rows, info)."""
    rnd = random.Random(seed)
    names = sorted(dims)
    valid = valid or (lambda row: True)

    def fix(row):
        return row

    def random_row(pin=None):
        for _ in range(200):
            row = {n: rnd.choice(dims[n]) for n in names}
            if pin:
                row.update(pin)
            if valid(row):
                return row
        return None

    combos = list(itertools.combinations(names, t))
    uncovered = set()
    for c in combos:
        for vals in itertools.product(*[range(len(dims[n])) for n in c]):
            uncovered.add((c, vals))
    idx = {n: {repr(v): i for i, v in enumerate(dims[n])} for n in names}

    def tuples_of(row):
        out = []
        for c in combos:
            out.append((c, tuple(idx[n][repr(row[n])] for n in c)))
        return out

    rows = [dict(r) for r in must]
    for r in rows:
        uncovered.difference_update(tuples_of(r))
    infeasible = 0
    while uncovered:
        # aim at one uncovered tuple so that progress is guaranteed when it is feasible
        target = min(uncovered)             # deterministic
        pin = {n: dims[n][i] for n, i in zip(*target)}
        best, best_gain = None, -1
        for _ in range(candidates):
            row = random_row(pin)
            if row is None:
                break
            gain = sum(1 for tp in tuples_of(row) if tp in uncovered)
            if gain > best_gain:
                best, best_gain = row, gain
        if best is None:
            uncovered.discard(target)
            infeasible += 1
            continue
        rows.append(best)
        uncovered.difference_update(tuples_of(best))
    return rows, dict(strength=t, rows=len(rows), infeasible_tuples=infeasible, dims={n: len(dims[n]) for n in names})
