"""Dual-mode builders: the same harness text construction for symbolic and concrete runs."""
import z3
from .core import SymInt, SymStr, Dec, Z, W


def num(v):
    return SymStr([Dec(v)]) if type(v) is SymInt else str(v)


def quad_of_octets(octs):
    parts = []
    for i, o in enumerate(octs):
        if i:
            parts.append(".")
        parts.append(Dec(o) if type(o) is SymInt else str(o))
    return SymStr.mk(parts)


def fresh_quad(ctx, name):
    """(text, 32-bit value) of a free IPv4 address made of four octet numerals; the value is a SymInt
    in symbolic mode and an int in concrete mode (use Z(value) for the z3 term)."""
    octs = [ctx.fresh(f"{name}{i}", 0, 255) for i in range(4)]
    val = (octs[0] << 24) | (octs[1] << 16) | (octs[2] << 8) | octs[3]
    return quad_of_octets(octs), val


def qtext(i):
    return ".".join(str((i >> s) & 255) for s in (24, 16, 8, 0))


def join(tokens, sep=" "):
    out = None
    for t in tokens:
        if t is None or (type(t) is str and t == ""):
            continue
        out = t if out is None else out + sep + t
    return out if out is not None else ""


def ival(obj):
    """int(obj) that also works when obj.__int__ yields a SymInt (IPv4Address built from symbols)."""
    if type(obj) in (int, SymInt):
        return obj
    return type(obj).__int__(obj)


def quad_of_value(v):
    """dotted quad text of a 32-bit value (int or SymInt)"""
    if type(v) is int:
        return qtext(v)
    octs = [(v >> s) & 255 for s in (24, 16, 8, 0)]
    return quad_of_octets(octs)


def toint(tok):
    """numeric value of a numeral token: int for str, the atom's SymInt for symbolic text"""
    if type(tok) is str:
        return int(tok)
    if type(tok) is SymStr and len(tok.parts) == 1 and type(tok.parts[0]) is Dec:
        return tok.parts[0].v
    raise ValueError(f"not a numeral: {tok!r}")
