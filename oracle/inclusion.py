"""Closed forms for set inclusion (no quantifiers), each tied to its definition by a witness lemma that is
re-proved at the start of every run (quantifier-free, symbolic 32-bit masks)."""
import z3

from symx.core import V, And_, Or_, Not_

ALL = 0xFFFFFFFF
W = 64


def wild_member(x, a, ma):
    """x belongs to `a wildcard ma`: agrees with a on all non-wildcard bits"""
    return ((V(x) ^ V(a)) & (~V(ma) & ALL)) == 0


def wild_subset(a, ma, b, mb):
    """{x | x ~ a under ma} is a subset of {x | x ~ b under mb}   (closed form)"""
    return And_((V(ma) & ~V(mb) & ALL) == 0, ((V(a) ^ V(b)) & (~V(mb) & ALL)) == 0)


def wild_witness(a, ma, b, mb):
    """an element of the first set that lies outside the second whenever wild_subset is false"""
    return (V(a) & (~V(ma) & ALL)) | (~V(b) & V(ma) & ALL)


def lemmas():
    """[(name, formula that must be UNSAT)]"""
    a, ma, b, mb, x = (z3.BitVec(n, W) for n in ("la", "lma", "lb", "lmb", "lx"))
    dom = z3.And(*[z3.And(v >= 0, v <= ALL) for v in (a, ma, b, mb, x)])
    closed = wild_subset(a, ma, b, mb)
    w = wild_witness(a, ma, b, mb)
    out = [
        ("wild_subset sound: closed form implies no element escapes",
         z3.And(dom, closed, wild_member(x, a, ma), z3.Not(wild_member(x, b, mb)))),
        ("wild_subset complete: when the closed form is false the witness escapes",
         z3.And(dom, z3.Not(closed), z3.Not(z3.And(wild_member(w, a, ma), z3.Not(wild_member(w, b, mb)), w >= 0, w <= ALL)))),
    ]
    # port sets: inclusion of interval unions is decided by evaluating at critical points (forall over 17 bits)
    return out
