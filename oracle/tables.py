"""The oracle's own transcription of Cisco ACL keywords and their IANA numbers (independent of the library's tables).
A keyword always denotes the same number within one protocol, whatever the platform."""

TCP = {
    "echo": 7, "discard": 9, "daytime": 13, "chargen": 19, "ftp-data": 20, "ftp": 21, "ssh": 22, "telnet": 23,
    "smtp": 25, "time": 37, "whois": 43, "tacacs": 49, "domain": 53, "gopher": 70, "finger": 79, "www": 80,
    "hostname": 101, "pop2": 109, "pop3": 110, "sunrpc": 111, "ident": 113, "nntp": 119, "msrpc": 135,
    "netbios-ssn": 139, "imap4": 143, "bgp": 179, "irc": 194, "ldap": 389, "https": 443, "pim-auto-rp": 496,
    "exec": 512, "login": 513, "cmd": 514, "rsh": 514, "syslog": 514, "lpd": 515, "talk": 517, "uucp": 540,
    "klogin": 543, "kshell": 544, "rtsp": 554, "ldaps": 636, "kerberos": 750, "lotusnotes": 1352,
    "citrix-ica": 1494, "sqlnet": 1521, "h323": 1720, "pptp": 1723, "nfs": 2049, "ctiqbe": 2748, "cifs": 3020,
    "drip": 3949, "sip": 5060, "aol": 5190, "pcanywhere-data": 5631, "onep-plain": 15001, "onep-tls": 15002,
}

UDP = {
    "echo": 7, "discard": 9, "time": 37, "nameserver": 42, "tacacs": 49, "domain": 53, "bootps": 67, "bootpc": 68,
    "tftp": 69, "www": 80, "sunrpc": 111, "ntp": 123, "netbios-ns": 137, "netbios-dgm": 138, "netbios-ss": 139,
    "snmp": 161, "snmptrap": 162, "xdmcp": 177, "dnsix": 195, "mobile-ip": 434, "pim-auto-rp": 496, "isakmp": 500,
    "biff": 512, "who": 513, "syslog": 514, "talk": 517, "rip": 520, "ripv6": 521, "kerberos": 750, "radius": 1645,
    "radius-acct": 1646, "nfs": 2049, "cifs": 3020, "non500-isakmp": 4500, "vxlan": 4789, "sip": 5060,
    "secureid-udp": 5510, "pcanywhere-status": 5632,
}

PROTO = {
    "ip": 0, "icmp": 1, "igmp": 2, "ipinip": 4, "ipip": 4, "tcp": 6, "egp": 8, "igrp": 9, "udp": 17, "ipv6": 41,
    "gre": 47, "esp": 50, "ah": 51, "ahp": 51, "icmp6": 58, "eigrp": 88, "ospf": 89, "nos": 94, "pim": 103,
    "pcp": 108, "snp": 109, "sctp": 132,
}

# keywords offered by `permit ?` on NX-OS (Cisco Nexus 9000 security configuration guide); other protocols are numbers there
PROTO_NXOS = {"ip", "icmp", "igmp", "tcp", "udp", "gre", "esp", "ahp", "eigrp", "ospf", "nos", "pim", "pcp"}

OPERATORS = ("eq", "neq", "gt", "lt", "range")
FLAGS = ("ack", "fin", "psh", "rst", "syn", "urg")
LOGS = ("log", "log-input")
RESERVED = OPERATORS + FLAGS + LOGS + ("any", "host", "object-group", "addrgroup", "permit", "deny", "remark",
                                       "established", "fragments", "dscp", "precedence", "tos", "ttl", "time-range",
                                       "match-all", "match-any")
PLATFORMS = ("asa", "ios", "nxos")
VERSIONS = ("0", "15.2", "16.9", "9.3")


def ports(proto):
    return TCP if proto in ("tcp", 6, "6") else UDP
