"""Independent reader of rendered Cisco ACE / ACL / object-group text (shares no code with the library).

Works on str and on symx SymStr (tokens with numeral atoms).  Returns the meaning as packet.Rule objects and REJECTS
syntax that is not valid on the stated platform (ios: host / wildcard / object-group, multi-port eq/neq;
nxos: prefix / wildcard / host / addrgroup, single-port operators)."""
from symx.core import V, Or_, And_, Not_, SymStr
from symx import text as T
from . import tables as tb
from .packet import Rule, addr_pred, port_pred, FLAGS, LOGS, ALL


class Reject(Exception):
    """the text is not valid syntax for the platform"""


def _isword(t, w=None):
    if type(t) is not str:
        return False
    return True if w is None else t == w


def _num(t):
    """value of a numeral token; canonical decimal only"""
    if type(t) is str:
        if not t.isdigit():
            raise Reject(f"numeral expected: {t!r}")
        if len(t) > 1 and t[0] == "0":
            raise Reject(f"leading zero: {t!r}")
        return int(t)
    return T.toint(t)


def _isnum(t):
    if type(t) is str:
        return t.isdigit()
    try:
        T.toint(t)
        return True
    except ValueError:
        return False


def _isquad(t):
    if type(t) is str:
        p = t.split(".")
        return len(p) == 4 and all(x.isdigit() for x in p)
    if "/" in _shape(t):
        return False
    return _shape(t).count(".") == 3


def _shape(t):
    """non-digit skeleton of a token (numerals replaced by N)"""
    if type(t) is str:
        out, prev = "", False
        for ch in t:
            d = ch.isdigit()
            if d and not prev:
                out += "N"
            elif not d:
                out += ch
            prev = d
        return out
    return "".join(_shape(p) if type(p) is str else "N" for p in t.parts)


def quad_value(t):
    """32-bit value of a dotted quad token; every octet must be 0..255 (returned as extra validity condition)"""
    parts = t.split(".")
    if len(parts) != 4:
        raise Reject(f"dotted quad expected: {t!r}")
    v, ok = 0, []
    for p in parts:
        o = _num(p)
        ok.append(V(o) <= 255)
        v = (v << 8) | o
    return v, And_(ok)


def read_address(toks, i, platform, groups):
    """-> (next index, predicate(field) or True, validity condition, description)"""
    if i >= len(toks):
        raise Reject("address expected")
    t = toks[i]
    if _isword(t, "any"):
        return i + 1, True, True, ("any",)
    if _isword(t, "host"):
        if i + 1 >= len(toks) or not _isquad(toks[i + 1]):
            raise Reject("host needs an address")
        v, ok = quad_value(toks[i + 1])
        return i + 2, (lambda f, v=v: V(f) == V(v)), ok, ("host", v)
    if _isword(t, "object-group") or _isword(t, "addrgroup"):
        if (platform == "ios") != (t == "object-group"):
            raise Reject(f"{t} is not valid on {platform}")
        if i + 1 >= len(toks) or not _isword(toks[i + 1]):
            raise Reject("group name expected")
        name = toks[i + 1]
        members = (groups or {}).get(name)
        if members is None:
            return i + 2, None, True, ("group", name)
        return i + 2, (lambda f, m=members: Or_([addr_pred(f, b, mk) for b, mk in m])), True, ("group", name)
    sh = _shape(t)
    if sh == "N.N.N.N/N":
        if platform == "ios":
            raise Reject("prefix notation is not valid on ios")
        a, l = t.split("/")
        v, ok = quad_value(a)
        ln = _num(l)
        if type(ln) is not int:
            raise Reject("symbolic prefix length")
        if not 0 <= ln <= 32:
            raise Reject("prefix length out of range")
        hm = (1 << (32 - ln)) - 1
        # NX-OS wants the network address: host bits must be clear
        return i + 1, (lambda f, v=v, hm=hm: addr_pred(f, v, hm)), And_(ok, (V(v) & hm) == 0), ("prefix", v, ln)
    if sh == "N.N.N.N":
        if i + 1 >= len(toks) or not _isquad(toks[i + 1]):
            raise Reject("address needs a wildcard")
        v, ok = quad_value(t)
        m, ok2 = quad_value(toks[i + 1])
        return i + 2, (lambda f, v=v, m=m: addr_pred(f, v, m)), And_(ok, ok2), ("wild", v, m)
    raise Reject(f"address expected: {t!r}")


def read_port(toks, i, platform, proto_name):
    """-> (next index, predicate(field) or True, validity, (op, operands))"""
    if i >= len(toks) or not (_isword(toks[i]) and toks[i] in tb.OPERATORS):
        return i, True, True, None
    if proto_name not in ("tcp", "udp"):
        raise Reject("port operator without tcp/udp")
    names = tb.ports(proto_name)
    op = toks[i]
    i += 1
    vals = []
    while i < len(toks) and (_isnum(toks[i]) or (_isword(toks[i]) and toks[i] in names)):
        vals.append(_num(toks[i]) if _isnum(toks[i]) else names[toks[i]])
        i += 1
    if not vals:
        raise Reject("operand expected")
    if op in ("gt", "lt") and len(vals) != 1:
        raise Reject("one operand expected")
    if op == "range" and len(vals) != 2:
        raise Reject("two operands expected")
    if op in ("eq", "neq") and platform != "ios" and len(vals) != 1:
        raise Reject(f"several ports after {op} are not valid on {platform}")
    ok = And_([And_(V(v) >= 0, V(v) <= 65535) for v in vals])
    return i, (lambda f, op=op, vals=vals: port_pred(op, vals, f)), ok, (op, vals)


def read_ace(line, platform, groups=None, acl_type="extended"):
    """Meaning of one ACE line.  -> dict(rule=Rule, valid=condition under which the numerals are in range,
    desc=field descriptions).  Raises Reject for text that is not valid on the platform."""
    toks = line.split()
    if not toks:
        raise Reject("empty line")
    i, seq = 0, 0
    if _isnum(toks[0]):
        seq = _num(toks[0])
        i = 1
    if i >= len(toks) or not (_isword(toks[i]) and toks[i] in ("permit", "deny")):
        raise Reject("action expected")
    action = toks[i]
    i += 1
    valid = []
    if acl_type == "standard":
        if platform != "ios":
            raise Reject("standard ACL outside ios")
        if i < len(toks) and _isquad(toks[i]) and (i + 1 >= len(toks) or not _isquad(toks[i + 1])):
            v, ok = quad_value(toks[i])
            src, desc, i = (lambda f, v=v: V(f) == V(v)), ("host", v), i + 1
            valid.append(ok)
        else:
            i, src, ok, desc = read_address(toks, i, platform, groups)
            valid.append(ok)
        rest = toks[i:]
        if any(not (_isword(x) and x in LOGS) for x in rest):
            raise Reject(f"unexpected {rest!r}")
        return dict(rule=Rule(action, None, src if src is not None else True, seq=seq, logs=rest), valid=And_(valid),
                    desc=dict(src=desc, dst=("any",), sport=None, dport=None), unresolved=src is None)
    if i >= len(toks):
        raise Reject("protocol expected")
    w = toks[i]
    i += 1
    if _isnum(w):
        proto = _num(w)
        valid.append(And_(V(proto) >= 0, V(proto) <= 255))
        proto_name = {6: "tcp", 17: "udp"}.get(proto) if type(proto) is int else None
    elif _isword(w) and w in tb.PROTO:
        if platform == "nxos" and w not in tb.PROTO_NXOS:
            raise Reject(f"protocol keyword {w!r} is not valid on nxos")
        proto = tb.PROTO[w]
        proto_name = w
    else:
        raise Reject(f"protocol expected: {w!r}")
    i, src, ok, d_src = read_address(toks, i, platform, groups)
    valid.append(ok)
    i, sport, ok, d_sp = read_port(toks, i, platform, proto_name)
    valid.append(ok)
    i, dst, ok, d_dst = read_address(toks, i, platform, groups)
    valid.append(ok)
    i, dport, ok, d_dp = read_port(toks, i, platform, proto_name)
    valid.append(ok)
    rest = toks[i:]
    flags = [x for x in rest if _isword(x) and x in FLAGS]
    logs = [x for x in rest if _isword(x) and x in LOGS]
    other = [x for x in rest if not (_isword(x) and (x in FLAGS or x in LOGS))]
    if other:
        raise Reject(f"unexpected {other!r}")
    if flags and proto_name != "tcp":
        raise Reject("tcp flags without tcp")
    rule = Rule(action, proto, src if src is not None else True, dst if dst is not None else True, sport, dport,
                flags, seq, logs)
    return dict(rule=rule, valid=And_(valid), desc=dict(src=d_src, dst=d_dst, sport=d_sp, dport=d_dp),
                unresolved=src is None or dst is None)


def read_acl(text, platform, groups=None):
    """-> dict(name, type, items=[("remark", seq, text) | ("ace", seq, parsed)])"""
    lines = [l for l in text.split("\n")]
    head = lines[0].split()
    if head[:2] != ["ip", "access-list"]:
        raise Reject("ip access-list expected")
    if platform == "ios":
        if len(head) != 4 or head[2] not in ("extended", "standard"):
            raise Reject("ios: ip access-list extended|standard NAME")
        typ, name = head[2], head[3]
    else:
        if len(head) != 3:
            raise Reject("nxos: ip access-list NAME")
        typ, name = "extended", head[2]
    items = []
    for l in lines[1:]:
        toks = l.split()
        if not toks:
            continue
        j = 1 if _isnum(toks[0]) else 0
        if j < len(toks) and _isword(toks[j], "remark"):
            items.append(("remark", _num(toks[0]) if j else 0, T.join(toks[j + 1:])))
            continue
        items.append(("ace", None, read_ace(l, platform, groups, typ)))
    return dict(name=name, type=typ, items=items)
