"""Packet model and first-match semantics (dual mode: z3 terms on proxies, plain bools on plain values)."""
from symx.core import V, Or_, And_, Not_, If_, Iff_, Xor_

ALL = 0xFFFFFFFF
FLAGS = ("ack", "fin", "psh", "rst", "syn", "urg")
LOGS = ("log", "log-input")


class Pkt:
    """One probe packet: all fields are fresh symbolic inputs of the harness (plain ints on replay)."""

    def __init__(self, ctx, tag="k", port_max=65535):
        self.proto = ctx.fresh(tag + "_proto", 0, 255)
        self.src = ctx.fresh(tag + "_src", 0, ALL)
        self.dst = ctx.fresh(tag + "_dst", 0, ALL)
        self.sport = ctx.fresh(tag + "_sport", 1, port_max)
        self.dport = ctx.fresh(tag + "_dport", 1, port_max)
        self.flags = {f: ctx.fresh(tag + "_" + f, 0, 1) for f in FLAGS}

    def flag(self, f):
        return V(self.flags[f]) == 1


def addr_pred(field, base, mask):
    """field agrees with base on every non-wildcard bit (mask: int or symbolic)"""
    if type(mask) is int:
        if mask == ALL:
            return True
        return ((V(field) ^ V(base)) & (~mask & ALL)) == 0
    return ((V(field) ^ V(base)) & (~V(mask) & ALL)) == 0


def port_pred(op, ops, p):
    zp = V(p)
    o = [V(x) for x in ops]
    if op == "eq":
        return Or_([zp == x for x in o])
    if op == "neq":
        return And_([zp != x for x in o])
    if op == "gt":
        return zp > o[0]
    if op == "lt":
        return zp < o[0]
    if op == "range":
        lo = If_(o[0] <= o[1], o[0], o[1])
        hi = If_(o[0] <= o[1], o[1], o[0])
        return And_(zp >= lo, zp <= hi)
    raise ValueError(op)


class Rule:
    """Meaning of one ACE: action + conjunction of field predicates (kept per field for diagnostics)."""

    def __init__(self, action, proto=None, src=True, dst=True, sport=True, dport=True, flags=(), seq=0, logs=()):
        self.action, self.proto, self.src, self.dst = action, proto, src, dst
        self.sport, self.dport, self.flags, self.seq, self.logs = sport, dport, tuple(flags), seq, tuple(logs)

    def matches(self, pkt):
        conds = []
        if self.proto is not None:
            # protocol 0 / "ip" stands for every IP protocol
            conds.append(Or_(V(self.proto) == 0, V(pkt.proto) == V(self.proto)))
        conds += [self.src_p(pkt), self.dst_p(pkt), self.sport_p(pkt), self.dport_p(pkt)]
        if self.flags:
            conds.append(Or_([pkt.flag(f) for f in self.flags]))      # several flag keywords match ANY of them
        return And_(conds)

    def src_p(self, pkt):
        return self.src(pkt.src) if callable(self.src) else self.src

    def dst_p(self, pkt):
        return self.dst(pkt.dst) if callable(self.dst) else self.dst

    def sport_p(self, pkt):
        return self.sport(pkt.sport) if callable(self.sport) else self.sport

    def dport_p(self, pkt):
        return self.dport(pkt.dport) if callable(self.dport) else self.dport


def decision(rules, pkt):
    """First-match decision of an ordered rule list: 1 permit, 0 deny (implicit deny at the end)."""
    out = 0
    for r in reversed(rules):
        out = If_(r.matches(pkt), 1 if r.action == "permit" else 0, out)
    return out


def same_decision(rules_a, rules_b, pkt):
    a, b = decision(rules_a, pkt), decision(rules_b, pkt)
    return V(a) == V(b)
